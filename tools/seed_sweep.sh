#!/bin/bash
# usage: tools/seed_sweep.sh <from> <to> [tier]   — every claimed check on the current tree under many seeds;
# any non-zero exit is printed (a check that alarms on the unchanged tree is a false alarm or a new finding).
cd "$(dirname "$0")/.."
from=${1:-2}; to=${2:-12}; tier=${3:-quick}
bad=0
for seed in $(seq $from $to); do
  for p in C06 C07 C08 C10 C15 C17 C19 C20; do
    out=$(./check $p --tier $tier --seed $seed 2>&1); code=$?
    if [ $code -ne 0 ]; then bad=$((bad+1)); echo "SEED $seed $p exit=$code"; echo "$out" | grep -E "invariant=|VIOLATION|HARNESS" | head -6; fi
  done
  echo "seed $seed done"
done
echo "sweep finished: $bad non-zero exits"
