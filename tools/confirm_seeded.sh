#!/bin/bash
# usage: tools/confirm_seeded.sh /tmp/seeded/C19-a   → confirms a sub-agent's deliverable in a scratch worktree
# (applies, compiles, existing suite unchanged, demo fails with the change and passes without) and, if all four
# hold, copies it to /verif/seeded/<name>/ with the confirmation recorded in meta.json.
src="$1"; name=$(basename "$src"); wt=/tmp/wt-confirm-$name
export CARGO_NET_OFFLINE=true RUST_BACKTRACE=0
git -C /repo worktree remove --force $wt 2>/dev/null; rm -rf $wt
git -C /repo worktree add -q --detach $wt HEAD || exit 2
cd $wt
res() { echo "$name: $1"; }
git apply --check "$src/patch.diff" || { res "PATCH-DOES-NOT-APPLY"; cd /; git -C /repo worktree remove --force $wt; exit 1; }
cp "$src/seeded_demo.rs" tests/tests/seeded_demo.rs
# without the change: demo must pass
cargo test -p garnish_lang_tests --test seeded_demo --offline > /tmp/confirm-$name-clean.log 2>&1; clean=$?
git apply "$src/patch.diff"
cargo test -p garnish_lang_tests --test seeded_demo --offline > /tmp/confirm-$name-mut.log 2>&1; mut=$?
# existing suite with the change (demo file removed): stable baseline must still pass
rm tests/tests/seeded_demo.rs
cargo test --workspace --no-fail-fast --offline > /tmp/confirm-$name-suite.log 2>&1
fails=$(grep -cE "^test [^ ]+ \.\.\. FAILED" /tmp/confirm-$name-suite.log)
compiled=$(grep -c "^test result" /tmp/confirm-$name-suite.log)
ok=0
if [ $clean -eq 0 ] && [ $mut -ne 0 ] && [ "$fails" -eq 39 ] && [ "$compiled" -ge 5 ]; then ok=1; fi
res "demo-clean-exit=$clean demo-mutated-exit=$mut suite-failing=$fails(expected 39) result-lines=$compiled => $([ $ok -eq 1 ] && echo CONFIRMED || echo REJECTED)"
if [ $ok -eq 1 ]; then
  mkdir -p /verif/seeded/$name
  cp "$src/patch.diff" /verif/seeded/$name/patch.diff
  cp "$src/seeded_demo.rs" /verif/seeded/$name/seeded_demo.rs
  python3 - "$src/meta.json" /verif/seeded/$name/meta.json <<PY
import json,sys
m=json.load(open(sys.argv[1]))
m['confirmed_by_me']={'worktree':'scratch worktree of /repo HEAD under /tmp (removed afterwards)',
 'demo_without_change':'cargo test -p garnish_lang_tests --test seeded_demo --offline -> pass',
 'demo_with_change':'same command -> fail',
 'existing_suite_with_change':'cargo test --workspace --no-fail-fast --offline -> the same 39 known-failing tests, all 1500 baseline tests pass'}
json.dump(m,open(sys.argv[2],'w'),indent=1)
PY
fi
cd /; git -C /repo worktree remove --force $wt
