#!/usr/bin/env python3
"""Writes /verif/MANIFEST.json from the table below (kept in one place so it stays valid)."""
import json, subprocess

def repo_commits(prefix):
    out = subprocess.run(['git', '-C', '/repo', 'log', '--format=%h %s'], stdout=subprocess.PIPE, text=True).stdout
    return [l.split()[0] for l in out.splitlines() if l.split(' ', 1)[1].startswith(prefix)]

TECH = "deterministic simulation with fault injection"

CLAIMED = {
    "C19": dict(
        level="exploration",
        text="Seeded simulation of a host that injects optimize (random root multisets incl. roots already on a stack or inside the retained prefix, duplicates, any order) / clone_data / allocations / symbol registrations / retention-point moves / in-place replacement of the current input value at step boundaries of running programs, and compaction inside the host's deferred-operation, external-apply and resolve callbacks, (and before the run starts) on the real BasicGarnishData, under random growth knobs and capacity limits; every root is read back structurally before/after each compaction and an uncompacted twin world must agree step for step. Sampling, not proof: a clean batch is evidence.",
        design="DESIGN.md §5 C19",
        note="Trusted: the scripted host stub, the structural reader (public getters only), the twin-run comparison; assumes hosts call retain_all_current_data after builds (the retention point may also move later, never below a build boundary). A refused optimize (Err) gives no verdict for that call.",
        technique=TECH + ": seeded compaction/clone schedule at step boundaries + store-full faults, twin-run and structural read-back oracles",
    ),
}

CLAIMED["C20"] = dict(
    level="exploration",
    text="Seeded simulation of histories of builds, complete runs, abandoned runs, failed builds, host allocations and compactions into one shared data object (both shipped implementations); every tenant is compared with its solo build (instruction stream modulo offsets, jump ranges, constants) and solo run (result, host-call history, step count, status), and earlier tenants are re-read after every event. Sampling, not proof.",
    design="DESIGN.md §5 C20",
    note="Trusted: scripted host stub, structural reader, solo twin = same real code in a fresh object. Casts (text/symbol conversions expose jump indices and the shared symbol-name table) are kept out of the tenant corpus except a symbol literal of the tenant's own source rendered as text. A tenant whose solo run stops with a stack-discipline error (an unbalanced program, C06's subject) gets no behavioural verdict, only the structural ones. Store-full under a configured capacity is a fault firing, not a verdict.",
    technique=TECH + ": seeded build/run/abandon/failed-build history into one store, solo-twin differential oracle",
)

CLAIMED["C06"] = dict(
    level="exploration",
    text="Dynamic half of the property: depth invariants (never below the frame base, exactly one pending operand at EndExpression, same depth at the same instruction on every visited path, flat reapply loops, initial depths restored at End) are evaluated after every step of (A) every ordered pair of operators (38 binary forms, 8 prefix, 3 suffix) around distinct identifiers, at the top level and inside a called expression, under declining / accepting hosts and five value palettes — swept completely on every invocation — and (B) generated control-flow-heavy programs and sampled operator triples whose every condition and arm is a host-resolved identifier, with the host's truth assignments swept (all 2^k for k<=6). The static all-paths abstract interpretation named in the quantifier is a different technique and is not built; path coverage is what the simulated host can steer.",
    design="DESIGN.md §5 C06",
    note="Trusted: depth observers (public API; Basic's private chains observed on a clone), scripted host. Seven recorded findings (D1, D8, D21, D22, D23, D28, D30) are reproduced by explicit scenarios on every run and matched by shape tags computed from the real parse tree (known_findings.json, DESIGN.md §7.2); the generator keeps those shapes out of the random corpus.",
    technique=TECH + ": host-steered path sweep with per-step depth invariants",
)
CLAIMED["C07"] = dict(
    level="fault_enumeration",
    text="For each sampled (program, input, host script) a fault-free run measures the allocations and callbacks of the run; variants then make the data block refuse its k-th slot (k spread over the whole run, every k in the thorough tier up to 428), make the j-th callback fail / decline / churn / lie, compact after every step, vary growth knobs, and restart the program in the same object after an error. Programs are seeded with boundary literals and templates aimed at value-dependent failures; hosts provide operand values of every data type incl. values of the host's own custom type; a value-shape matrix of ~155 000 explicit programs (every sliceable kind x ranges in / out of range / reversed / empty / astronomically large / far beyond the heap, nested one level, x every consumer and operator) is swept completely on every invocation. Every step runs under catch_unwind in address-space-limited child processes; a dead or stalled shard is an abort.",
    design="DESIGN.md §5 C07",
    note="Only stepping is judged (pipeline rejections/panics are C03, unclaimed). Build profile: optimised with overflow-checks and debug-assertions on. Unbounded work inside one step is judged on explicit isolated scenarios only (own child process, memory limit, deadline): recorded findings D16 / D17; the random corpus keeps such inputs out.",
    technique=TECH + ": fault enumeration over allocation points and callbacks, panic/abort net",
)
CLAIMED["C15"] = dict(
    level="exploration",
    text="Every history of 1..5 operations (thorough tier: 1..6) over an 11-operation alphabet x 8 uniform block settings (initial size 0, 1, 2 x additive 1, 2, multiplicative 2) on BasicGarnishData is swept completely on every invocation; beyond that, seeded histories (3..400 operations) over the whole data-interface alphabet (52 operation kinds: every add_* / parse_add_*, composites, mixed keyed / plain lists, symbol-list merges, conversions, stacks, tables, push_object_to_data_block and the convenience adders outside the trait; boundary scalars and raw symbol values) against an abstract model of independent growable tables, on both shipped implementations; on BasicGarnishData every block gets its own initial size {0,1,2,3,10} and growth policy (FixedSize 1,2,3,7,10 / Multiplicative 2,3) and a quarter of runs a capacity limit; every address ever returned is read back (type, content, iterators, keyed lookup) together with all tables and stacks after every operation (sampled for long histories) and at the end; SimpleGarnishData's interning is checked at every add. The quantifier's 'exhaustively' is met for the 11-operation alphabet up to length 5 (6 in the thorough tier); longer histories and the full alphabet are sampled.",
    design="DESIGN.md §5 C15",
    note="Trusted: the abstract model, structural reader. Growth policies that cannot make progress are never configured. A refused operation may leave garbage at new addresses only.",
    technique=TECH + ": store-history simulation against a reference model with growth knobs and store-full faults",
)

CLAIMED["C08"] = dict(
    level="exploration",
    text="The defer_op protocol is an interaction with a second party, so it is simulated with a scripted, recording host: (A) the complete instruction x type-pair matrix (40 instructions, 43 representative values of all 20 data types incl. the host's custom type) is swept on every invocation under hosts {absent, declining, accepting, failing, accepting after a nested run, declining / accepting after an earlier offer on the same store was answered with Err, re-entering the runtime inside the callback with an undefined operation of its own (which must be offered too) then declining / accepting, compacting-then-declining (Basic)} on both implementations — call count, instruction, operand identity and order, unit result, depth, use of the host's value, absent == declining, no call for defined pairs, the unsupported-types code never escaping, the program going on with the next instruction, the operands pending beneath left untouched; (B) seeded programs whose identifiers resolve to values of every type are monitored step by step against the same table. The matrix part is exhaustive over its finite table; the program part samples.",
    design="DESIGN.md §5 C08",
    note="Trusted: spec/defined_ops.json (which combinations the language defines: recorded from the pinned runtime, compared by hand with the match arms, two hand corrections), the recording host, the structural reader. What a defined operation returns is not judged.",
    technique=TECH + ": scripted second party (host) with recorded call histories over the full operation matrix and seeded programs",
)

CLAIMED["C10"] = dict(
    level="exploration",
    text="Truthiness and short-circuit evaluation are observed through the host-call history, which is the observation point the property names: (A) 43 representative values of all data types (and a declining host) x 9 testing forms x both implementations, and `c && <shape>` / `c || <shape>` for 15 un-bracketed operator shapes x 11 x 11 operand values, on every invocation, (B) seeded control-flow-heavy programs in which every operand is a distinct host-resolved identifier, run under 8 truth assignments per program (falsy = declined / unit / $!). The recorded history (symbols, order, multiplicity) and the final value must equal those of a reference evaluator that interprets the real parse tree with its own value model.",
    design="DESIGN.md §5 C10, §4.1",
    note="Trusted: the reference evaluator's semantics (derived from the builder/runtime sources and cross-checked on probe programs), which abstains outside the core language and when the real run returns a runtime error other than a host failure; the scripted recording host.",
    technique=TECH + ": scripted host with recorded call histories compared with a reference evaluator",
)
CLAIMED["C17"] = dict(
    level="exploration",
    text="Seeded core-language programs with identifiers and externals at every operand position, run with inputs that provide a random subset of the identifiers (pair, keyed list, slice of a keyed list, concatenation, non-container) under hosts that resolve none / some / all, provide values or externals, decline, fail at the n-th call, churn or compact the store inside any callback (Basic), after earlier failed callbacks on the same store, and (Basic) with display names the host entered in the symbol table itself before the build; plus explicit minimal protocol scenarios on every invocation. The recorded resolve / apply history (order, count, symbols, external numbers, structural arguments, answers) and the final value must equal the reference evaluator's: input first, then exactly one host call, unit when declined, result used at exactly that occurrence.",
    design="DESIGN.md §5 C17, §4.1",
    note="Trusted: reference evaluator semantics, scripted recording host. External apply is exercised on BasicGarnishData only (SimpleGarnishData does not expose the hook). Keyed lookups in lists with unkeyed items / duplicate keys give no verdict (C16).",
    technique=TECH + ": scripted host (resolve/apply callbacks incl. failing and churning) with recorded call histories compared with a reference evaluator",
)

NOT_APPLICABLE = {
    "C01": "pure function of (source text, input value, data implementation): no schedule, fault, configuration or second party in the statement — input generation, not simulation",
    "C02": "parse is a pure function of the token sequence; deciding it means enumerating operator pairs/triples, not simulating anything",
    "C03": "totality/termination of three pure functions over input strings; 'promptly' is algorithmic complexity, there is no clock to simulate",
    "C04": "structural fact about one parse/build result; pure function of the input",
    "C05": "static well-formedness of one build result; pure function of the program",
    "C09": "pure arithmetic on two numbers; needs wider reference arithmetic, not a schedule or fault",
    "C11": "pure relation on value pairs/triples",
    "C12": "pure relation on value pairs",
    "C13": "pure function string -> tokens",
    "C14": "pure function literal text -> value",
    "C16": "pure function of list contents and key",
    "C18": "metamorphic relation between two source texts; pure",
}

PENDING = {
}

def main():
    checks = []
    for pid, c in sorted(CLAIMED.items()):
        checks.append({
            "property_id": pid,
            "quick_cmd": f"./check {pid} --tier quick",
            "thorough_cmd": f"./check {pid} --tier thorough",
            "evidence_file": f"/verif/evidence/{pid}.json",
            "replay_cmd_template": f"./check {pid} --replay {{path}}",
            "engine": "garnish_sim",
            "level_claimed": {"category": c["level"], "text": c["text"], "design_ref": c["design"]},
            "level_note": c["note"],
            "technique": c["technique"],
        })
    na = [{"property_id": k, "reason": v} for k, v in sorted({**NOT_APPLICABLE, **PENDING}.items())]
    m = {
        "version": 1,
        "setup_cmd": "cd /verif/sim && CARGO_NET_OFFLINE=true cargo build --release --offline",
        "hooks": {
            "guard": "cargo feature `verif_hooks` of garnish_lang_simple_data (data/Cargo.toml); off by default",
            "enable": "the simulator crate /verif/sim depends on /repo/data by path with features = [\"verif_hooks\"]; no RUSTFLAGS needed",
            "baseline_off_cmd": "python3 /verif/tools/baseline_off.py",
            "source_commits": repo_commits("verif hook"),
            "add_only": True,
        },
        "engines": [{
            "name": "garnish_sim",
            "path": "/verif/sim",
            "serves_properties": sorted(CLAIMED.keys()),
            "kind_free_text": "single-process deterministic simulator: real lexer/parser/builder/runtime/data implementations driven step-wise by a seeded simulated host (schedule of builds, runs, compactions, clones, abandoned runs), scripted host callbacks, store-full faults and growth knobs; sharded child processes for crash isolation; concrete-scenario replay files and greedy minimisation",
        }],
        "checks": checks,
        "not_applicable": na,
        "notes": "All checks honour VERIF_SEED / VERIF_TIER. Genuine defects repaired in /repo: " + ", ".join(repo_commits("fix:")) + " (see known_findings.json and DESIGN.md §7).",
    }
    json.dump(m, open('/verif/MANIFEST.json', 'w'), indent=1)
    print("wrote MANIFEST.json:", len(checks), "checks,", len(na), "not applicable")

if __name__ == '__main__':
    main()
