#!/usr/bin/env python3
"""Run the repository's own test suite with the verification hooks OFF (no features, no cfg)
and compare with the stable baseline in /root/.vp/BASELINE.json. Exit 0 iff every test in
stable_pass passes."""
import json, re, subprocess, sys, os

base = json.load(open('/root/.vp/BASELINE.json'))
stable = set(base['stable_pass'])
env = dict(os.environ, CARGO_NET_OFFLINE='true', RUST_BACKTRACE='0')
p = subprocess.run(['cargo', 'test', '--workspace', '--no-fail-fast', '--offline'], cwd='/repo', env=env,
                   stdout=subprocess.PIPE, stderr=subprocess.STDOUT, text=True)
passed, failed = set(), set()
crate = None
for line in p.stdout.splitlines():
    m = re.match(r'\s*Running (unittests )?(\S+) \((\S+)\)', line)
    if m:
        binpath = m.group(3)
        name = os.path.basename(binpath).rsplit('-', 1)[0]
        src = m.group(2)
        if m.group(1):
            crate = name if src.endswith('lib.rs') else None   # bin targets have no baseline tests
            if src.endswith('main.rs'):
                crate = None
        else:
            # integration test target tests/<x>.rs of package garnish_lang_tests
            crate = 'garnish_lang_tests::' + name
        continue
    m = re.match(r'\s*Doc-tests (\S+)', line)
    if m:
        crate = None
        continue
    m = re.match(r'test (\S+) \.\.\. (ok|FAILED|ignored)', line)
    if m and crate:
        full = crate + '::' + m.group(1)
        (passed if m.group(2) == 'ok' else failed).add(full)
missing = sorted(stable - passed)
print(f'baseline (hooks off): {len(passed)} passed, {len(failed)} failed; stable baseline {len(stable)}; '
      f'stable tests not passing: {len(missing)}')
for t in missing[:40]:
    print('  NOT PASSING:', t)
sys.exit(0 if not missing else 1)
