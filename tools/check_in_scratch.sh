#!/bin/bash
# usage: tools/check_in_scratch.sh <patch-file> <PROP> [check args…]
#   Runs one property's check against a scratch worktree of /repo HEAD with <patch-file> applied, WITHOUT
#   touching /repo (for use while a long background run is using /repo itself). A copy of the simulator
#   crate with its path dependencies pointed at the worktree is built under /tmp; evidence / replays of
#   this run go to /tmp as well. Everything is removed afterwards unless KEEP_SCRATCH=1.
set -u
patch="$(readlink -f "$1")"; prop="$2"; shift 2
id="scr$$"
wt="/tmp/wt-$id"; root="/tmp/verif-$id"
cleanup() { [ "${KEEP_SCRATCH:-0}" = 1 ] && return; git -C /repo worktree remove --force "$wt" 2>/dev/null; rm -rf "$wt" "$root"; }
trap cleanup EXIT
git -C /repo worktree add --detach "$wt" HEAD -q || exit 2
if [ "$patch" != "/dev/null" ]; then git -C "$wt" apply "$patch" || { echo "patch does not apply"; exit 2; }; fi
mkdir -p "$root/evidence" "$root/replays"
cp -r /verif/spec /verif/known_findings.json /verif/properties.jsonl "$root/"
mkdir -p "$root/sim"; cp -r /verif/sim/src /verif/sim/Cargo.lock /verif/sim/.cargo "$root/sim/"
sed "s#/repo/#$wt/#g" /verif/sim/Cargo.toml > "$root/sim/Cargo.toml"
cd "$root/sim" || exit 2
export CARGO_NET_OFFLINE=true RUST_BACKTRACE=0 RUST_LIB_BACKTRACE=0 VERIF_ROOT="$root"
# reuse the compiled third-party crates of the main build when possible
if ! cargo build --release --offline >build.log 2>&1; then echo "HARNESS-ERROR: scratch build failed"; tail -30 build.log; exit 2; fi
./target/release/garnish_sim check "$prop" "$@"; code=$?
# keep the first replay for inspection
if [ $code -eq 1 ]; then mkdir -p /tmp/scratch-replays; cp "$root"/replays/*.json /tmp/scratch-replays/ 2>/dev/null; fi
exit $code
