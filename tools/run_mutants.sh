#!/bin/bash
# usage: tools/run_mutants.sh [pattern]   — applies each mutants/<PROP>-*.patch (and seeded/<id>/patch.diff) to /repo,
# runs the owning property's quick check, expects exit 1, and always restores /repo.
cd /verif
trap 'git -C /repo checkout -- . 2>/dev/null' EXIT
pat="${1:-}"
for f in mutants/*.patch seeded/*/patch.diff; do
  [ -f "$f" ] || continue
  case "$f" in *"$pat"*) ;; *) continue;; esac
  if [[ "$f" == mutants/* ]]; then prop=$(basename "$f" | cut -d- -f1); else prop=$(python3 -c "import json,sys;print(json.load(open('$(dirname $f)/meta.json'))['property'])"); fi
  if ! git -C /repo apply --check "$PWD/$f" 2>/dev/null; then echo "SKIP $f (does not apply)"; continue; fi
  git -C /repo apply "$PWD/$f"
  out=$(./check $prop --tier quick ${MUT_ARGS:-} 2>&1); code=$?
  # replay the first reported violation in a fresh process while the change is still applied:
  # it must fail the same way with an identical trace hash
  rp=""
  if [ $code -eq 1 ]; then
    file=$(echo "$out" | grep -m1 "^VIOLATION" | sed 's/.*replay=//')
    if [ -n "$file" ] && [ -f "$file" ]; then
      rout=$(./check $prop --replay "$file" 2>&1); rcode=$?
      if [ $rcode -eq 1 ] && echo "$rout" | grep -q "identical"; then rp="replay=identical"; else rp="REPLAY-MISMATCH(exit=$rcode)"; fi
    fi
  fi
  git -C /repo checkout -- .
  inv=$(echo "$out" | grep -m1 "invariant=" | cut -c1-160)
  if [ $code -eq 1 ]; then echo "CAUGHT  $f  [$prop] $rp $inv"; else echo "MISSED  $f  [$prop] exit=$code $(echo "$out" | tail -1 | cut -c1-200)"; fi
done
