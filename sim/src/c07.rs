//! C07 — stepping a built program never panics or aborts the host. Fault enumeration: every run of a
//! group shares one base (program, input, host script); the variants place one fault each — the data
//! block refusing its k-th slot for k over the whole run (F1), the j-th callback failing / declining /
//! churning / lying (F2–F5), compaction after every step (F8), random growth knobs (K1) — and after an
//! error the host abandons the run and starts again in the same object.

use crate::campaign::{Campaign, Outcome, Tier};
use crate::gen::{gen_input, Gen, GenCfg, G};
use crate::host::{Answer, HasHost, Host, HostScript};
use crate::rng::{Fnv, Rng};
use crate::simdata::{BasicW, BlockKnob, Knobs, SimData, SimpleW, Strat};
use crate::val::{SymPart, Val};
use crate::world::{compile, current_instruction, start, step, BuildOutcome, StepResult};
use garnish_lang_simple_data::symbol_value;
use garnish_lang_traits::GarnishData;
use serde::{Deserialize, Serialize};
use serde_json::{json, Value};

#[derive(Clone, Debug, Serialize, Deserialize, PartialEq)]
pub enum AfterErr {
    Nothing,
    /// pop the frames and start the same program again in the same object
    Rerun,
    /// Basic: pop the frames, optimize, then start again
    CompactRerun,
}

#[derive(Clone, Debug, Serialize, Deserialize)]
pub struct Sc07 {
    pub basic: bool,
    pub knobs: Knobs,
    pub src: String,
    pub input: Val,
    pub script: HostScript,
    /// Basic: optimize after every n-th step (0 = never)
    pub compact_every: usize,
    pub after_err: AfterErr,
    pub max_steps: usize,
    /// which fault this variant places (for the evidence counters)
    pub fault: String,
}

pub struct C07;

/// materialising or walking a range of 2^31 elements is unbounded work, not a panic: keep numeric ranges small
fn tame(v: Val) -> Val {
    match v {
        Val::Range(a, b) => {
            let num = |v: &Val| match v {
                Val::Int(i) => Some(*i as f64),
                Val::Float(bits) => Some(f64::from_bits(*bits)),
                _ => None,
            };
            match (num(&a), num(&b)) {
                (Some(x), Some(y)) if !((y - x).abs() <= 1000.0) => {
                    // keep the kinds (int / float) but bring the ends close together
                    let small = |v: &Val, k: i32| match v {
                        Val::Float(_) => Val::Float((k as f64 + 0.5).to_bits()),
                        _ => Val::Int(k),
                    };
                    Val::Range(Box::new(small(&a, 3)), Box::new(small(&b, 9)))
                }
                _ => Val::Range(Box::new(tame(*a)), Box::new(tame(*b))),
            }
        }
        Val::Pair(a, b) => Val::Pair(Box::new(tame(*a)), Box::new(tame(*b))),
        Val::Concat(a, b) => Val::Concat(Box::new(tame(*a)), Box::new(tame(*b))),
        Val::Slice(a, b) => Val::Slice(Box::new(tame(*a)), Box::new(tame(*b))),
        Val::Partial(a, b) => Val::Partial(Box::new(tame(*a)), Box::new(tame(*b))),
        Val::List(items) => Val::List(items.into_iter().map(tame).collect()),
        other => other,
    }
}

fn exotic_value(rng: &mut Rng, depth: usize) -> Val {
    tame(exotic_value_raw(rng, depth))
}

fn exotic_value_raw(rng: &mut Rng, depth: usize) -> Val {
    let int = |rng: &mut Rng| Val::Int(*rng.pick(&[0, 1, -1, 2, 31, 32, 33, i32::MAX, i32::MIN, i32::MAX - 1, i32::MIN + 1, 65536, -65536, 7]));
    let leaf = |rng: &mut Rng| match rng.below(17) {
        // a value of the host's own (custom) type
        16 => Val::Custom,
        0 => Val::Unit,
        1 => Val::True,
        2 => Val::False,
        3 | 4 => int(rng),
        5 => Val::Float(rng.pick(&[0.0f64, -0.0, 1.5, -2.5, 1e308, -1e308, 5e-324, f64::INFINITY, f64::NEG_INFINITY, f64::NAN, 2147483648.0, -2147483649.0]).to_bits()),
        6 => Val::Type(rng.range(0, 20) as u8),
        7 => Val::Char(*rng.pick(&['a', '\0', 'é', '日', '😀', '\n'])),
        8 => Val::Byte(*rng.pick(&[0u8, 1, 127, 128, 255])),
        9 => Val::Sym(*rng.pick(&[0u64, 1, u64::MAX, symbol_value("ka"), symbol_value("kb")])),
        10 => Val::Text(rng.pick(&["", "a", "hello world", "日本語", "a😀b", "0", "12", "-5", "1.5", "$?", "()"]).to_string()),
        11 => Val::Bytes(rng.pick(&["a", "xyz", "0"]).as_bytes().to_vec()),
        // expression values naming a valid jump entry re-enter the program itself (unbounded recursion): invalid ones only
        12 => Val::Expr(*rng.pick(&[99usize, 1000, usize::MAX])),
        13 => Val::External(*rng.pick(&[0usize, 1, 7, usize::MAX])),
        14 => Val::SymList(vec![SymPart::Sym(symbol_value("ka")), SymPart::Sym(symbol_value("kb")), SymPart::Sym(1)][..rng.range(2, 3)].to_vec()),
        _ => Val::List(vec![]),
    };
    if depth == 0 {
        return leaf(rng);
    }
    match rng.below(12) {
        0 | 1 => Val::List((0..rng.range(0, 4)).map(|_| exotic_value(rng, depth - 1)).collect()),
        2 => Val::List((0..rng.range(1, 3)).map(|i| Val::pair(Val::Sym(symbol_value(["ka", "kb", "kc"][i])), exotic_value(rng, depth - 1))).collect()),
        3 => Val::pair(exotic_value(rng, depth - 1), exotic_value(rng, depth - 1)),
        4 => Val::Concat(Box::new(exotic_value(rng, depth - 1)), Box::new(exotic_value(rng, depth - 1))),
        // ranges incl. reversed and non-numeric ends
        // range ends stay small: casting / comparing a range of 2^31 elements is unbounded work (DESIGN §12)
        5 => Val::Range(Box::new(Val::Int(rng.range_i(-5, 40) as i32)), Box::new(Val::Int(rng.range_i(-5, 40) as i32))),
        6 => Val::Range(Box::new(exotic_value(rng, 0)), Box::new(exotic_value(rng, 0))),
        // slices incl. out-of-range, reversed ranges and non-list targets
        7 => Val::Slice(
            Box::new(match rng.below(4) {
                0 => Val::Text("abcdef".into()),
                1 => Val::Bytes(b"abcdef".to_vec()),
                2 => Val::List((0..rng.range(0, 5)).map(|i| Val::Int(i as i32)).collect()),
                _ => exotic_value(rng, depth - 1),
            }),
            Box::new(Val::Range(Box::new(Val::Int(*rng.pick(&[0, 1, 4, 7, -1, 100]))), Box::new(Val::Int(*rng.pick(&[0, 2, 3, 6, -1, 100, 5]))))),
        ),
        8 => Val::Slice(Box::new(exotic_value(rng, depth - 1)), Box::new(exotic_value(rng, depth - 1))),
        9 => Val::Partial(Box::new(exotic_value(rng, depth - 1)), Box::new(exotic_value(rng, depth - 1))),
        _ => leaf(rng),
    }
}

/// source text of an operand aimed at value-dependent failures; a quarter of them sit inside another container
fn operand(rng: &mut Rng) -> String {
    let x = operand_raw(rng);
    match rng.below(16) {
        0 => format!("({} <> 5)", x),
        1 => format!("(5 <> {})", x),
        2 => format!("({},)", x),
        3 => format!("(:ka = {})", x),
        _ => x,
    }
}

fn operand_raw(rng: &mut Rng) -> String {
    let num = |rng: &mut Rng| rng.pick(&["0", "1", "2", "4", "9", "--1", "31", "32", "33", "2147483647", "(--2147483647 - 1)", "1.5", "0.0", "--0.5"]).to_string();
    match rng.below(20) {
        0..=4 => {
            // a slice: in range, out of range, reversed, empty, of every sliceable kind
            let target = *rng.pick(&["\"abcdef\"", "'abcdef'", "(1 2 3 4)", ":ka.kb.kc.kd", "(1 <> 2 <> 3)", "(:ka = 1, :kb = 2, :kc = 3)", "\"日本語\"", "(,)", "\"\""]);
            let op = *rng.pick(&["..", "..", ">..", "..<", ">..<"]);
            let ends = ["0", "1", "2", "4", "9", "--1", "3"];
            format!("({} <~ ({} {} {}))", target, rng.pick(&ends), op, rng.pick(&ends))
        }
        5 | 6 => {
            let op = *rng.pick(&["..", ">..", "..<", ">..<"]);
            let small = ["0", "1", "2", "4", "9", "--1", "31", "1.5", "--0.5"];
            format!("({} {} {})", rng.pick(&small), op, rng.pick(&small))
        }
        7 | 8 | 9 => rng.pick(&["t1", "t2", "t3"]).to_string(),
        10 => "$".to_string(),
        11 | 12 => num(rng),
        13 => rng.pick(&["\"\"", "\"é\"", "\"日本語\"", "\"abc\"", "\"12\"", "\"1.5\"", "\"--3\"", "'abc'", "'x'", "\"a😀b\""]).to_string(),
        14 => rng.pick(&["(,)", "(1 2 3)", "(1,)", "(:ka = 1, :kb = 2)", "((1 2) (3 4))", "(:ka = (,))", "(1 \"a\" :ka)"]).to_string(),
        15 => rng.pick(&[":ka", ":ka.kb", ":ka.kb.kc", "(:ka = 5)", "(1 = 2)", "(:ka = :kb = 3)"]).to_string(),
        16 => rng.pick(&["()", "$?", "$!", "#1", "#\"\"", "#(,)", "#:s", "#()"]).to_string(),
        17 => rng.pick(&["(1 <> 2)", "(1 <> 2 <> 3)", "(\"ab\" <> \"cd\")", "((1 2) <> (3 4))", "((,) <> (,))"]).to_string(),
        18 => rng.pick(&["{ $ }", "{ $ + 1 }", "({ $ } ~ 1)", "({ $.0 } ~ 5)", "{ ^~ $ }"]).to_string(),
        _ => format!("({} {} {})", num(rng), rng.pick(&["+", "*", "**", "<<", ">>", "/", "%"]), num(rng)),
    }
}

/// programs aimed at value-dependent panics (besides the random generator with boundary literals)
fn template(rng: &mut Rng) -> String {
    let ops = [
        "+", "-", "*", "/", "//", "%", "**", "&", "|", "^", "<<", ">>", "<", "<=", ">", ">=", "==", "==", "!=", "!=", "#=", "~#", "~#", "<>", "<>", "=", "<~", "<~", "~>", "~", "&&", "||", "^^",
    ];
    match rng.below(10) {
        0..=3 => {
            let a = operand(rng);
            let b = if rng.chance(1, 4) { a.clone() } else { operand(rng) };
            format!("{} {} {}", a, rng.pick(&ops), b)
        }
        4 => format!("({} {} {}) {} {}", operand(rng), rng.pick(&ops), operand(rng), rng.pick(&ops), operand(rng)),
        5 | 6 => {
            let pre = ["--", "++", "!", "!!", "??", "#", "_.", ""];
            let suf = ["._", ".|", "~~", "", ""];
            format!("{}{}{}", rng.pick(&pre), operand(rng), rng.pick(&suf))
        }
        7 => {
            // deep nesting built at run time: a loop that wraps its state n times, then consumes it
            let n = *rng.pick(&[5usize, 50, 200]);
            let wrap = *rng.pick(&["($.v,)", "(:ka = $.v)", "(:ka = $.v,)", "($.v <> 1)", "{ $ } ~ $.v", "(1 = $.v)", "(\"ab\" <> $.v)"]);
            let consume = *rng.pick(&["$.v ~# \"\"", "$.v == $.v", "$.v ~# 'x'", "$.v.|", "$.v <> $.v", "$.v ~# :s", "$.v != (1,)", "$.v ~# (,)", "$.v ~# 0", "$.v < $.v"]);
            format!("{{ ($.n) < {} ?> ^~ ((:n = (($.n) + 1)), (:v = {})) |> {} }} <~ ((:n = 0), (:v = 1))", n, wrap, consume)
        }
        8 => {
            // every cast target
            let target = *rng.pick(&["\"\"", "'x'", "0", "(,)", ":s", "#0", "#\"\"", "#'x'", "#(,)", "#:s", "#()", "#$?", "#(1..2)", "#(1 = 2)", "#(1 <> 2)", "#{ 1 }", "$?", "()", "1.5"]);
            format!("{} ~# {}", operand(rng), target)
        }
        _ => {
            let idx = ["0", "1", "5", "--1", "1.5", "2147483647", ":ka", "(1..2)", "(3..1)", "(,)", ":ka.kb", "(0 >..< 0)"];
            if rng.chance(1, 3) {
                format!("{{ $.{} }} <~ {}", rng.pick(&["0", "1", "9", "ka"]), operand(rng))
            } else {
                format!("{} <~ {}", operand(rng), rng.pick(&idx))
            }
        }
    }
}

struct Base {
    src: String,
    input: Val,
    script: HostScript,
}

fn base(rng: &mut Rng) -> Base {
    let budget = rng.range(2, 30);
    let (src, keys) = if rng.chance(1, 2) {
        (template(rng), vec!["ka".to_string(), "kb".to_string(), "kc".to_string()])
    } else {
        let mut cfg = GenCfg::full(budget);
        cfg.boundary_literals = true;
        cfg.w_cast = 6;
        cfg.w_range = 6;
        cfg.w_concat = 5;
        cfg.w_bitwise = 6;
        cfg.w_float = 4;
        cfg.w_partial = 3;
        cfg.w_typeof = 3;
        cfg.w_symlist = 4;
        let keys = cfg.keys.clone();
        let mut g = Gen::new(rng, cfg);
        let p: G = g.program();
        (g.print(&p), keys)
    };
    let input = if rng.chance(1, 3) { exotic_value(rng, 2) } else { gen_input(rng, &keys) };
    let mut script = HostScript::default();
    script.resolve_default = Some(match rng.below(4) {
        0 => Answer::Decline,
        1 => Answer::Provide(exotic_value(rng, 2)),
        _ => Answer::Unique,
    });
    for name in ["t1", "t2", "t3", "x1"] {
        if rng.chance(2, 3) {
            script.resolve.insert(symbol_value(name), Answer::Provide(exotic_value(rng, 2)));
        }
    }
    script.resolve.insert(symbol_value("f1"), Answer::Decline);
    script.apply_default = Some(match rng.below(3) {
        0 => Answer::Decline,
        1 => Answer::Provide(exotic_value(rng, 1)),
        _ => Answer::Unique,
    });
    script.defer_default = Some(match rng.below(3) {
        0 => Answer::Provide(exotic_value(rng, 1)),
        _ => Answer::Decline,
    });
    Base { src, input, script }
}

/// fault-free measurement on Basic: (data slots in use when the run starts, slots allocated by the run, callbacks)
fn measure(b: &Base) -> Option<(usize, usize, usize)> {
    let mut d = BasicW::create(Host::new(b.script.clone()), &Knobs::default()).ok()?;
    d.host_mut().recording = false;
    let built = match compile(&mut d, &b.src) {
        BuildOutcome::Ok(x) => x,
        _ => return None,
    };
    d.host_mut().recording = true;
    start(&mut d, built.entry_jump, &b.input).ok()?;
    let l0 = d.get_data_len();
    for _ in 0..600 {
        match step(&mut d) {
            StepResult::Running => {}
            _ => break,
        }
    }
    Some((l0, d.get_data_len().saturating_sub(l0), d.host().calls))
}

fn execute_in<D: SimData>(sc: &Sc07) -> Outcome {
    let mut out = Outcome::default();
    let mut th = Fnv::new();
    let mut sh = Fnv::new();
    sh.str(&sc.fault);
    let mut d = match D::create(Host::new(sc.script.clone()), &sc.knobs) {
        Ok(d) => d,
        Err(_) => {
            out.abstain = Some("create-failed".into());
            return out;
        }
    };
    d.host_mut().recording = false;
    let built = match compile(&mut d, &sc.src) {
        BuildOutcome::Ok(b) => b,
        BuildOutcome::BuildErr { msg, .. } => {
            if msg.contains("exceeds max items") {
                out.count("f1_store_full_fired", 1);
                out.probe("store-full-during-build");
            }
            out.abstain = Some("program-did-not-build".into());
            return out;
        }
        other => {
            // lexer / parser / builder rejections and panics belong to C03, which is not claimed
            out.abstain = Some(format!("program-{}", other.tag()));
            return out;
        }
    };
    d.host_mut().recording = true;
    d.retain_now();
    let mut attempt = 0;
    let mut total_steps = 0u64;
    'attempts: loop {
        attempt += 1;
        d.host_mut().reset_run();
        if let Err(e) = start(&mut d, built.entry_jump, if attempt == 1 { &sc.input } else { &Val::Unit }) {
            if e.contains("exceeds max items") {
                out.count("f1_store_full_fired", 1);
            }
            break;
        }
        let mut steps = 0usize;
        loop {
            if steps >= sc.max_steps {
                out.probe("step-budget-reached");
                break 'attempts;
            }
            let ins = current_instruction(&d).map(|(i, _)| i);
            let r = step(&mut d);
            steps += 1;
            total_steps += 1;
            th.str(r.tag());
            let mut st = Fnv::new();
            st.u64(d.get_instruction_cursor() as u64);
            st.str(r.tag());
            st.u64((d.get_data_len() / 16) as u64);
            out.state(st.finish());
            match r {
                StepResult::Running => {
                    if D::IS_BASIC && sc.compact_every != 0 && steps % sc.compact_every == 0 {
                        match crate::world::guarded(|| d.optimize_only()) {
                            Err(p) => {
                                out.violate("C07.panic.optimize", format!("optimize at a step boundary panicked: {}", p));
                                break 'attempts;
                            }
                            Ok(true) => out.count("f8_compactions", 1),
                            Ok(false) => {
                                out.count("optimize_err", 1);
                                out.probe("optimize-refused");
                                break 'attempts;
                            }
                        }
                    }
                }
                StepResult::End => {
                    out.probe("ran-to-completion");
                    break 'attempts;
                }
                StepResult::Panic(p) => {
                    // the panic location is part of the invariant id, so that different panics are reported separately
                    let loc = p.rsplit(" @ ").next().unwrap_or("").replace("/repo/", "");
                    out.violate(&format!("C07.panic.step@{}", loc), format!("executing {:?} panicked: {} [fault: {}, attempt {}]", ins, p, sc.fault, attempt));
                    break 'attempts;
                }
                StepResult::Err { ref msg, .. } => {
                    if r.is_store_full() {
                        out.count("f1_store_full_fired", 1);
                        out.probe("store-full-inside-step");
                    } else if r.is_host_failure() {
                        out.probe("callback-failure-surfaced-as-err");
                    } else {
                        out.count("runtime_errors", 1);
                        let _ = msg;
                    }
                    if attempt >= 2 || sc.after_err == AfterErr::Nothing {
                        break 'attempts;
                    }
                    // the host abandons the run: frames must go, everything else stays as residue
                    let mut guard = 0;
                    while let Ok(Some(_)) = d.pop_frame() {
                        guard += 1;
                        if guard > 10_000 {
                            break;
                        }
                    }
                    out.count("f6_abandoned_runs", 1);
                    if sc.after_err == AfterErr::CompactRerun && D::IS_BASIC {
                        match crate::world::guarded(|| d.optimize_only()) {
                            Err(p) => {
                                out.violate("C07.panic.optimize", format!("optimize after an abandoned run panicked: {}", p));
                                break 'attempts;
                            }
                            Ok(true) => out.count("f8_compactions", 1),
                            Ok(false) => {
                                out.probe("optimize-refused");
                                break 'attempts;
                            }
                        }
                    }
                    out.probe("second-run-after-error-in-same-object");
                    continue 'attempts;
                }
            }
        }
    }
    let h = d.host();
    out.count("steps", total_steps);
    out.count("callbacks", h.calls as u64);
    out.count("f2_callback_fail_fired", h.fired_fail as u64);
    out.count("f3_callback_decline_fired", h.fired_decline as u64);
    out.count("f4_callback_churn_fired", h.fired_churn as u64);
    out.count("f5_lying_host_fired", h.fired_lie as u64);
    if sc.knobs != Knobs::default() {
        out.count("k1_nondefault_knobs_or_capacity", 1);
    }
    out.nontrivial = total_steps > 0;
    if let Some(v) = &out.violation {
        th.str(&v.invariant);
    }
    out.trace_hash = th.finish();
    out.schedule_hash = sh.finish();
    out
}

impl Campaign for C07 {
    type Scenario = Sc07;
    fn prop(&self) -> &'static str {
        "C07"
    }
    fn id(&self) -> u64 {
        7
    }
    fn level(&self) -> &'static str {
        "fault_enumeration"
    }
    fn runs(&self, tier: Tier) -> u64 {
        match tier {
            Tier::Quick => 12_000 * 24,
            Tier::Thorough => 120_000 * 448,
        }
    }
    fn group(&self, tier: Tier) -> u64 {
        match tier {
            Tier::Quick => 24,
            Tier::Thorough => 448,
        }
    }
    fn min_verdict_pct(&self) -> u64 {
        40
    }

    fn generate(&self, rng: &mut Rng, tier: Tier, index: u64) -> Sc07 {
        let group = self.group(tier);
        let v = (index % group) as usize;
        let b = base(rng);
        if std::env::var("C07_TRACE_BASE").is_ok() {
            eprintln!("BASE {:?}", b.src);
        }
        let (l0, allocs, calls) = measure(&b).unwrap_or((0, 0, 0));
        let mut sc = Sc07 { basic: true, knobs: Knobs::default(), src: b.src.clone(), input: b.input.clone(), script: b.script.clone(), compact_every: 0, after_err: AfterErr::Nothing, max_steps: 1500, fault: "none".into() };
        // the rng continues deterministically from the base draws; per-variant choices use a fork keyed by v
        let mut vr = Rng::new(rng.next_u64() ^ (v as u64).wrapping_mul(0x9E37_79B9_7F4A_7C15));
        match v {
            0 => {
                sc.basic = false;
                sc.fault = "none/simple".into();
            }
            1 => sc.fault = "none/basic".into(),
            2 => {
                sc.compact_every = 1;
                sc.fault = "F8 compaction after every step".into();
            }
            3 => {
                sc.compact_every = vr.range(2, 5);
                sc.knobs = crate::c19::random_knobs(&mut vr);
                sc.fault = "F8 compaction every n-th step + K1 knobs".into();
            }
            4 | 5 => {
                sc.knobs = crate::c19::random_knobs(&mut vr);
                sc.fault = "K1 growth knobs".into();
            }
            6 => {
                sc.basic = false;
                sc.input = exotic_value(&mut vr, 3);
                sc.fault = "none/simple exotic input".into();
            }
            7 => {
                sc.input = exotic_value(&mut vr, 3);
                sc.fault = "none/basic exotic input".into();
            }
            8..=19 => {
                // the j-th callback misbehaves
                let kinds = [
                    Answer::Fail,
                    Answer::Decline,
                    Answer::Churn(vr.range(1, 30) as u32, Box::new(Answer::Unique)),
                    Answer::LieNoPush,
                    Answer::LiePushTwo,
                    Answer::Provide(exotic_value(&mut vr, 2)),
                ];
                let kind = kinds[(v - 8) % 6].clone();
                let j = if calls == 0 { 0 } else { ((v - 8) / 6 + vr.below(calls)) % calls };
                sc.basic = (v - 8) % 2 == 0 || matches!(kind, Answer::Churn(_, _));
                sc.fault = format!("callback #{} answers {}", j, kind.kind());
                sc.script.nth_override.insert(j, kind);
                sc.after_err = if vr.chance(1, 2) { AfterErr::Rerun } else { AfterErr::Nothing };
            }
            _ => {
                // F1: the data block refuses the k-th slot allocated by the run
                let n = (group as usize) - 20;
                let slot = v - 20;
                let k = if allocs == 0 {
                    1
                } else if allocs <= n {
                    1 + slot % allocs
                } else {
                    // evenly spread over the run, jittered so that repeated seeds cover every k
                    1 + (slot * allocs / n + vr.below(allocs / n + 1)).min(allocs - 1)
                };
                sc.knobs.data = BlockKnob { init: 10.min(l0 + k - 1), max: l0 + k - 1, strat: Strat::Fixed(1) };
                sc.fault = format!("F1 data block refuses slot {} of {} allocated by the run", k, allocs);
                sc.after_err = match vr.below(3) {
                    0 => AfterErr::Nothing,
                    1 => AfterErr::Rerun,
                    _ => AfterErr::CompactRerun,
                };
                if vr.chance(1, 6) {
                    sc.compact_every = vr.range(1, 3);
                }
            }
        }
        sc
    }

    fn execute(&self, sc: &Sc07) -> Outcome {
        if sc.basic {
            execute_in::<BasicW>(sc)
        } else {
            execute_in::<SimpleW>(sc)
        }
    }

    fn shrink(&self, sc: &Sc07) -> Vec<Sc07> {
        let mut out = vec![];
        for cand in crate::c06::shrink_source(&sc.src) {
            let mut c = sc.clone();
            c.src = cand;
            out.push(c);
        }
        if sc.input != Val::Unit {
            let mut c = sc.clone();
            c.input = Val::Unit;
            out.push(c);
        }
        if sc.after_err != AfterErr::Nothing {
            let mut c = sc.clone();
            c.after_err = AfterErr::Nothing;
            out.push(c);
        }
        if sc.compact_every != 0 {
            let mut c = sc.clone();
            c.compact_every = 0;
            out.push(c);
        }
        if sc.knobs != Knobs::default() {
            let mut c = sc.clone();
            c.knobs = Knobs::default();
            out.push(c);
        }
        // simplify the host script entry by entry
        for k in sc.script.resolve.keys() {
            let mut c = sc.clone();
            c.script.resolve.remove(k);
            out.push(c);
        }
        if sc.script.resolve_default != Some(Answer::Unique) {
            let mut c = sc.clone();
            c.script.resolve_default = Some(Answer::Unique);
            out.push(c);
        }
        for k in sc.script.nth_override.keys() {
            let mut c = sc.clone();
            c.script.nth_override.remove(k);
            out.push(c);
        }
        if sc.script.defer_default.is_some() {
            let mut c = sc.clone();
            c.script.defer_default = None;
            out.push(c);
        }
        if sc.script.apply_default.is_some() {
            let mut c = sc.clone();
            c.script.apply_default = None;
            out.push(c);
        }
        out
    }

    fn seeded(&self) -> Vec<Sc07> {
        let mk = |basic: bool, src: &str| Sc07 { basic, knobs: Knobs::default(), src: src.to_string(), input: Val::Unit, script: HostScript::default(), compact_every: 0, after_err: AfterErr::Nothing, max_steps: 500, fault: "none (regression seed)".into() };
        let mut v = vec![mk(false, "1 << 32"), mk(true, "1 >> 33"), mk(true, "1 << --1")];
        // value-shape matrix (complete on every invocation): every sliceable kind x ranges in / out of range /
        // reversed / empty, bare and nested one level inside another container, fed to every consumer
        let targets = ["\"abcdef\"", "'abcdef'", "(1 2 3 4)", ":ka.kb.kc.kd", "(10 <> 20 <> 30)", "(:ka = 1, :kb = 2)"];
        let ranges = ["(1..2)", "(0..9)", "(2..0)", "(3..3)", "(--1..1)", "(1 >..< 1)"];
        let mut values: Vec<String> = vec![];
        // a range with an astronomically large bound only where the consumer indexes by it rather than
        // walking it (slices of lists walk it: that is unbounded work, see the isolated findings)
        for t in ["\"abcdef\"", "'abcdef'", ":ka.kb.kc.kd", "(10 <> 20 <> 30)"] {
            let s = format!("({} <~ (0 .. 1000000000000000000000.0))", t);
            values.push(s.clone());
            values.push(format!("({} <> 5)", s));
            values.push(format!("({},)", s));
        }
        for t in targets {
            for r in ranges {
                let s = format!("({} <~ {})", t, r);
                values.push(s.clone());
                values.push(format!("({} <> 5)", s));
                values.push(format!("(5 <> {})", s));
                values.push(format!("({},)", s));
                values.push(format!("(:ka = {})", s));
                values.push(format!("({} <~ (0..1))", s));
            }
        }
        // starts far beyond the sequence (and beyond the whole store): an index taken straight from the program
        for t in targets {
            for r in ["(5000..5001)", "(2147483646 ..< 2147483647)", "(5000..2)", "(--5000 .. --4000)"] {
                let s = format!("({} <~ {})", t, r);
                values.push(s.clone());
                values.push(format!("({} <> 5)", s));
                values.push(format!("({},)", s));
            }
        }
        for extra in [
            "\"\u{65e5}\u{672c}\u{8a9e}\"", "(\"\u{65e5}\u{672c}\u{8a9e}\" <~ (1..2))", "(\"h\u{e9}llo\" <~ (1..3))", "(3..1)", "(1..3)", "(1.5 .. 3)", "(1 >..< 1)", ":ka.kb", "({ $ } ~ 1)", "(5 ~ 6)", "(,)", "((1 2) (3 4))", "(:ka = (,))",
            // a symbol spelled with a further ':' at the end of its name (same symbol value, another recorded name)
            ":ka:", "(:kb: = 5)", "(:ka:, 5)", ":ka.kb:",
            ":na\u{ef}ve", "(:na\u{ef}ve = 5)", ":ab.na\u{ef}ve", "(:\u{65e5}\u{672c} = (1 2))", "\"\u{e9}\"", "(1 <> (2 <> 3))", "2147483647", "(--2147483647 - 1)", "1.5", "()", "$?", "#1", "{ $ }", "(1 = 2)", "(:ka = :kb = 3)", "\"\"", "(\"ab\" <> \"cd\")", "((,) <> (,))",
        ] {
            values.push(extra.to_string());
        }
        let seconds = ["0", "1", "--1", "1.5", ":ka", "\"a\"", "(,)", "(0..1)", "31", "32", "V"];
        let binary = ["<~", "+", "*", "**", "//", "%", "<<", ">>", "==", "<", "<>", "~#", "..", "&"];
        for val in &values {
            for op in binary {
                for w in seconds {
                    let src = format!("{} {} {}", val, op, w.replace('V', val));
                    v.push(mk(false, &src));
                    v.push(mk(true, &src));
                    if ["<~", "~#", "..", "**", "<<"].contains(&op) {
                        let src = format!("{} {} {}", w.replace('V', val), op, val);
                        v.push(mk(false, &src));
                        v.push(mk(true, &src));
                    }
                }
            }
        }
        let consumers = [
            "V.|", "_.V", "V._", "#V", "V ~# \"\"", "V ~# 'x'", "V ~# (,)", "V ~# :s", "V ~# 0", "V~~", "--V", "!!V", "V == V", "V != (1 <> 2)", "V == \"bc\"", "V < V", "V <> V", "V <~ 0", "V <~ 1",
            "V <~ :ka", "{ $.0 } <~ V", "{ $.ka } <~ V", "{ ka } <~ V", "V <~ (0..1)", "V + 1",
        ];
        for val in &values {
            for c in consumers {
                let src = c.replace('V', val);
                v.push(mk(false, &src));
                v.push(mk(true, &src));
            }
        }
        // values no literal produces, handed in as the input `$`: a value of the host's own (custom) type, an
        // external, an expression value that names no entry, a type value — through every consumer and operator
        for input in [Val::Custom, Val::External(3), Val::Expr(9999), Val::Type(3), Val::pair(Val::Custom, Val::Custom), Val::List(vec![Val::Custom])] {
            let mut with_input = |basic: bool, src: &str| {
                let mut sc = mk(basic, src);
                sc.input = input.clone();
                v.push(sc);
            };
            for c in consumers {
                let src = c.replace('V', "$");
                with_input(false, &src);
                with_input(true, &src);
            }
            for op in binary {
                for w in seconds {
                    let src = format!("$ {} {}", op, w.replace('V', "$"));
                    with_input(false, &src);
                    with_input(true, &src);
                    let src = format!("{} {} $", w.replace('V', "$"), op);
                    with_input(false, &src);
                    with_input(true, &src);
                }
            }
        }
        v
    }

    fn isolated(&self) -> Vec<Sc07> {
        // unbounded work inside ONE step (the step budget cannot bound it): recorded findings, see DESIGN §7.2
        let mk = |basic: bool, src: &str| Sc07 { basic, knobs: Knobs::default(), src: src.to_string(), input: Val::Unit, script: HostScript::default(), compact_every: 0, after_err: AfterErr::Nothing, max_steps: 200, fault: "none (isolated seed)".into() };
        let huge = |basic: bool, base: Val, start: i32, src: &str| {
            let mut sc = mk(basic, src);
            sc.input = Val::Slice(Box::new(base), Box::new(Val::Range(Box::new(Val::Int(start)), Box::new(Val::Int(i32::MAX)))));
            sc
        };
        vec![
            mk(false, "(33 .. 2147483646) ~# (,)"),
            mk(true, "(33 .. 2147483646) ~# (,)"),
            mk(false, "((1 2 3) <~ (0 .. 1000000000000000000000.0)) ~# (,)"),
            // regression seeds of D19 (fixed): a one-element float range too large for `+ 1` to advance
            mk(false, "(100000000000000000000.0 .. 100000000000000000000.0) ~# (,)"),
            mk(true, "(100000000000000000000.0 .. 100000000000000000000.0) ~# (,)"),
            mk(false, "(9007199254740992.0 .. 9007199254740993.0) ~# (,)"),
            mk(true, "(9007199254740992.0 .. 9007199254740993.0) ~# (,)"),
            // a slice of text / bytes whose range spans more than i32::MAX (no literal makes one: the host hands it in
            // as `$`), rendered as text and as bytes: item counts computed in i32 overflow (seeded change C07-k)
            huge(false, Val::text("abcdef"), 0, "$ ~# \"\""),
            huge(true, Val::text("abcdef"), 0, "$ ~# \"\""),
            huge(false, Val::text("abcdef"), -3, "$ ~# \"\""),
            huge(true, Val::text("abcdef"), -3, "$ ~# \"\""),
            huge(false, Val::text("abcdef"), i32::MIN, "$ ~# \"\""),
            huge(true, Val::text("abcdef"), i32::MIN, "$ ~# \"\""),
            huge(false, Val::text("abcdef"), -3, "$ ~# :s"),
            huge(true, Val::text("abcdef"), -3, "$ ~# :s"),
        ]
    }

    fn haystack(&self, sc: &Sc07) -> String {
        format!("<<{}>> impl={}", sc.src, if sc.basic { "basic" } else { "simple" })
    }

    fn rule(&self) -> String {
        "explicit scenarios (complete on every invocation): a value-shape matrix of ~113 000 programs — every sliceable kind x ranges in / out of range / reversed / empty, bare and nested one level inside another container, plus 26 further value kinds, fed to 25 unary / structural consumers and 14 binary operators against 11 second operands in both orders, on both implementations. Seeded: runs come in groups that share one base = (program, input, host script): the program is a random full-language program seeded with boundary literals (i32 limits, shift counts 31/32/33, huge/tiny floats, empty and multi-byte text), or a template aimed at value-dependent failures (operator x operand-kind pairs, indexes out of range / negative / fractional, reversed ranges and slices, values nested 5..200 deep built by a loop and then cast / compared / concatenated), with host-provided operand values of every data type incl. ones no literal produces (slice, partial, external, type, expression, concatenation, symbol list, NaN / infinite floats). Variants of a group: fault-free on each data implementation, compaction after every step, random growth knobs, exotic inputs, the j-th callback failing / declining / churning / lying (no push, two pushes) / returning an exotic value, and the data block refusing the k-th slot allocated by the run for k spread over the whole run (every k when the run allocates fewer slots than the group has F1 variants: 4 quick — further placements come from further bases —, 428 thorough). After an error the host pops the frames and (in most variants) starts the program again in the same object, optionally after optimize. Verdict: no step may unwind; a shard that dies or stalls is an abort. distinct = distinct scenario hash; non-trivial = at least one instruction was stepped".to_string()
    }

    fn components(&self) -> Value {
        json!({"real": ["lexer", "parser", "builder", "runtime", "SimpleGarnishData", "BasicGarnishData incl. optimize", "capacity limits / growth policies of the real storage blocks"], "stub": ["host callbacks (scripted, incl. misbehaving hosts)"], "build": "opt-level 2 with overflow-checks and debug-assertions on (a host compiled in debug would see those panics)"})
    }

    fn assumptions(&self) -> Vec<String> {
        vec![
            "only stepping is judged: programs the lexer/parser/builder reject (or that panic there) give no verdict — that is C03, not claimed".into(),
            "Err is always acceptable".into(),
            "the misbehaving-host variants (Ok(true) without pushing, two pushes) are included because the README only warns they 'could cause script to fail'; a panic there is still reported".into(),
        ]
    }
}
