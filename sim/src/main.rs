mod c06;
mod c07;
mod c08;
mod c1017;
mod eval;
mod c15;
mod c19;
mod c20;
mod campaign;
mod gen;
mod host;
mod probe;
mod rng;
mod simdata;
mod val;
mod world;

use campaign::{Campaign, CheckArgs, Tier};

fn arg_val(args: &[String], name: &str) -> Option<String> {
    args.iter().position(|a| a == name).and_then(|i| args.get(i + 1)).cloned()
}

fn verif_root() -> String {
    std::env::var("VERIF_ROOT").unwrap_or_else(|_| "/verif".to_string())
}

fn with_campaign(prop: &str, f: &mut dyn FnMut(&dyn Dispatch) -> i32) -> i32 {
    match prop {
        "C06" => f(&c06::C06),
        "C07" => f(&c07::C07),
        "C08" => f(&c08::C08),
        "C10" => f(&c1017::C10),
        "C17" => f(&c1017::C17),
        "C15" => f(&c15::C15),
        "C19" => f(&c19::C19),
        "C20" => f(&c20::C20),
        _ => {
            println!("HARNESS-ERROR: no campaign for {prop}");
            2
        }
    }
}

/// object-safe view of a campaign for the CLI
trait Dispatch {
    fn check(&self, a: &CheckArgs) -> i32;
    fn worker(&self, tier: Tier, seed: u64, shard: u64, shards: u64, total: u64, hashes_only: bool);
    fn replay(&self, path: &str) -> i32;
    fn runs(&self, tier: Tier) -> u64;
    fn show(&self, tier: Tier, seed: u64, idx: u64) -> String;
    fn isolated(&self, index: usize);
}

impl<C: Campaign> Dispatch for C {
    fn check(&self, a: &CheckArgs) -> i32 {
        campaign::check(self, a)
    }
    fn worker(&self, tier: Tier, seed: u64, shard: u64, shards: u64, total: u64, hashes_only: bool) {
        campaign::worker(self, tier, seed, shard, shards, total, hashes_only)
    }
    fn replay(&self, path: &str) -> i32 {
        campaign::replay(self, path)
    }
    fn runs(&self, tier: Tier) -> u64 {
        Campaign::runs(self, tier)
    }
    fn isolated(&self, index: usize) {
        campaign::run_isolated(self, index)
    }
    fn show(&self, tier: Tier, seed: u64, idx: u64) -> String {
        let mut rng = rng::Rng::new(rng::run_seed(seed, self.id(), idx / self.group(tier).max(1)));
        let sc = self.generate(&mut rng, tier, idx);
        serde_json::to_string_pretty(&sc).unwrap_or_default()
    }
}

fn main() {
    world::install_panic_hook();
    let args: Vec<String> = std::env::args().collect();
    let cmd = args.get(1).map(|s| s.as_str()).unwrap_or("");
    let seed: u64 = arg_val(&args, "--seed").or_else(|| std::env::var("VERIF_SEED").ok()).and_then(|s| s.parse().ok()).unwrap_or(1);
    let tier = Tier::parse(&arg_val(&args, "--tier").or_else(|| std::env::var("VERIF_TIER").ok()).unwrap_or_else(|| "quick".into()));
    let code = match cmd {
        "check" => {
            let prop = args.get(2).cloned().unwrap_or_default();
            let shards = arg_val(&args, "--shards").and_then(|s| s.parse().ok()).unwrap_or(16);
            let runs_override = arg_val(&args, "--runs").and_then(|s| s.parse().ok());
            if let Some(path) = arg_val(&args, "--replay") {
                with_campaign(&prop, &mut |c| c.replay(&path))
            } else {
                let a = CheckArgs { tier, seed, shards, verif_root: verif_root(), runs_override };
                with_campaign(&prop, &mut |c| c.check(&a))
            }
        }
        "worker" => {
            let prop = args.get(2).cloned().unwrap_or_default();
            let shard = arg_val(&args, "--shard").and_then(|s| s.parse().ok()).unwrap_or(0);
            let shards = arg_val(&args, "--shards").and_then(|s| s.parse().ok()).unwrap_or(1);
            let total = arg_val(&args, "--total").and_then(|s| s.parse().ok()).unwrap_or(0);
            let hashes_only = args.iter().any(|a| a == "--hashes-only");
            with_campaign(&prop, &mut |c| {
                c.worker(tier, seed, shard, shards, total, hashes_only);
                0
            })
        }
        "isolated" => {
            let prop = args.get(2).cloned().unwrap_or_default();
            let idx: usize = args.get(3).and_then(|s| s.parse().ok()).unwrap_or(0);
            with_campaign(&prop, &mut |c| {
                c.isolated(idx);
                0
            })
        }
        "determinism" => {
            // run the first N indices of a campaign at several shard counts; per-run trace hashes must agree
            let prop = args.get(2).cloned().unwrap_or_default();
            let n: u64 = arg_val(&args, "--runs").and_then(|s| s.parse().ok()).unwrap_or(2000);
            let mut reference: Option<std::collections::BTreeMap<i64, u64>> = None;
            let mut bad = 0;
            for (round, shards) in [(0, 1u64), (1, 4), (2, 16), (3, 16), (4, 7), (5, 1)] {
                let m = campaign::drive(&prop, tier, seed, shards, n, true, 120);
                println!("round {} shards {:2}: {} runs, {} hashes, dead shards {:?}", round, shards, m.runs, m.trace_hashes.len(), m.dead_shards);
                match &reference {
                    None => reference = Some(m.trace_hashes),
                    Some(r) => {
                        if *r != m.trace_hashes {
                            let diffs: Vec<_> = r.iter().filter(|(k, v)| m.trace_hashes.get(k) != Some(v)).take(5).collect();
                            println!("NONDETERMINISM: {} differ, e.g. {:?}", r.iter().filter(|(k, v)| m.trace_hashes.get(k) != Some(v)).count(), diffs);
                            bad += 1;
                        }
                    }
                }
            }
            if bad == 0 {
                println!("determinism OK for {prop}: identical per-run trace hashes in all rounds");
                0
            } else {
                1
            }
        }
        "c08-record" => {
            println!("{}", serde_json::to_string_pretty(&c08::record()).unwrap());
            0
        }
        "show" => {
            // print the scenario generated for one run index
            let prop = args.get(2).cloned().unwrap_or_default();
            let idx: u64 = args.get(3).and_then(|s| s.parse().ok()).unwrap_or(0);
            with_campaign(&prop, &mut |c| {
                println!("{}", c.show(tier, seed, idx));
                0
            })
        }
        "probe" => {
            let n = args.get(3).and_then(|s| s.parse().ok()).unwrap_or(2000);
            probe::probe_both(&args[2], n);
            0
        }
        "tokens" => {
            let n = args.get(3).and_then(|s| s.parse().ok()).unwrap_or(2000);
            probe::tokens(&args[2], n);
            0
        }
        "annot" => {
            let n = args.get(2).and_then(|s| s.parse().ok()).unwrap_or(2000);
            probe::annot_probe::<simdata::SimpleW>(n);
            0
        }
        "c06-matrix" => {
            c06::dev_matrix();
            0
        }
        "demo" => {
            probe::demo_both(&args[2]);
            0
        }
        _ => {
            println!("usage: garnish_sim check <PROP> [--tier quick|thorough] [--seed N] [--replay file] | determinism <PROP> | probe <profile> n | demo <src>");
            2
        }
    };
    std::process::exit(code);
}
