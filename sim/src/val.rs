//! Structural (address-free) values: read back through the public GarnishData getters
//! only, and materialised through the public add_* interface only.

use garnish_lang_simple_data::{DataError, SimpleNumber};
use garnish_lang_traits::{GarnishData, GarnishDataType, SymbolListPart};
use serde::{Deserialize, Serialize};

/// Both shipped data implementations use the same concrete associated types.
pub trait GD:
    GarnishData<Size = usize, Number = SimpleNumber, Symbol = u64, Char = char, Byte = u8, Error = DataError> + 'static
{
}
impl<T> GD for T where
    T: GarnishData<Size = usize, Number = SimpleNumber, Symbol = u64, Char = char, Byte = u8, Error = DataError> + 'static
{
}

#[derive(Clone, Debug, PartialEq, Eq, PartialOrd, Ord, Hash, Serialize, Deserialize)]
pub enum SymPart {
    Sym(u64),
    Int(i32),
    Float(u64),
}

#[derive(Clone, Debug, PartialEq, Eq, PartialOrd, Ord, Hash, Serialize, Deserialize)]
pub enum Val {
    Unit,
    True,
    False,
    Int(i32),
    /// f64 bits
    Float(u64),
    /// GarnishDataType discriminant
    Type(u8),
    Char(char),
    Byte(u8),
    Sym(u64),
    SymList(Vec<SymPart>),
    Text(String),
    Bytes(Vec<u8>),
    Pair(Box<Val>, Box<Val>),
    Range(Box<Val>, Box<Val>),
    Concat(Box<Val>, Box<Val>),
    Slice(Box<Val>, Box<Val>),
    Partial(Box<Val>, Box<Val>),
    List(Vec<Val>),
    Expr(usize),
    External(usize),
    Custom,
    /// unreadable: (what failed)
    Bad(String),
}

pub const ALL_TYPES: [GarnishDataType; 21] = [
    GarnishDataType::Invalid,
    GarnishDataType::Unit,
    GarnishDataType::Number,
    GarnishDataType::Type,
    GarnishDataType::Char,
    GarnishDataType::CharList,
    GarnishDataType::Byte,
    GarnishDataType::ByteList,
    GarnishDataType::Symbol,
    GarnishDataType::SymbolList,
    GarnishDataType::Pair,
    GarnishDataType::Range,
    GarnishDataType::Concatenation,
    GarnishDataType::Slice,
    GarnishDataType::Partial,
    GarnishDataType::List,
    GarnishDataType::Expression,
    GarnishDataType::External,
    GarnishDataType::True,
    GarnishDataType::False,
    GarnishDataType::Custom,
];

pub fn type_from_u8(v: u8) -> GarnishDataType {
    ALL_TYPES.get(v as usize).copied().unwrap_or(GarnishDataType::Invalid)
}

pub fn type_to_u8(t: GarnishDataType) -> u8 {
    t as u8
}

impl Val {
    pub fn int(v: i32) -> Val {
        Val::Int(v)
    }
    pub fn pair(l: Val, r: Val) -> Val {
        Val::Pair(Box::new(l), Box::new(r))
    }
    pub fn text(s: &str) -> Val {
        Val::Text(s.to_string())
    }
    /// expression values are jump-table indices: express them relative to a program's first jump entry
    pub fn rebase_expr(&self, j0: usize) -> Val {
        match self {
            Val::Expr(n) => Val::Expr(if *n >= j0 { n - j0 } else { usize::MAX - (j0 - n) }),
            Val::Pair(l, r) => Val::Pair(Box::new(l.rebase_expr(j0)), Box::new(r.rebase_expr(j0))),
            Val::Range(l, r) => Val::Range(Box::new(l.rebase_expr(j0)), Box::new(r.rebase_expr(j0))),
            Val::Concat(l, r) => Val::Concat(Box::new(l.rebase_expr(j0)), Box::new(r.rebase_expr(j0))),
            Val::Slice(l, r) => Val::Slice(Box::new(l.rebase_expr(j0)), Box::new(r.rebase_expr(j0))),
            Val::Partial(l, r) => Val::Partial(Box::new(l.rebase_expr(j0)), Box::new(r.rebase_expr(j0))),
            Val::List(items) => Val::List(items.iter().map(|i| i.rebase_expr(j0)).collect()),
            other => other.clone(),
        }
    }
    pub fn over_budget(&self) -> bool {
        match self {
            Val::Bad(s) => s == OVER_BUDGET,
            Val::Pair(l, r) | Val::Range(l, r) | Val::Concat(l, r) | Val::Slice(l, r) | Val::Partial(l, r) => l.over_budget() || r.over_budget(),
            Val::List(items) => items.iter().any(|i| i.over_budget()),
            _ => false,
        }
    }
    pub fn all_ascii(&self) -> bool {
        match self {
            Val::Char(c) => c.is_ascii(),
            Val::Text(t) => t.is_ascii(),
            Val::Pair(l, r) | Val::Range(l, r) | Val::Concat(l, r) | Val::Slice(l, r) | Val::Partial(l, r) => l.all_ascii() && r.all_ascii(),
            Val::List(items) => items.iter().all(|i| i.all_ascii()),
            _ => true,
        }
    }
    pub fn is_bad(&self) -> bool {
        match self {
            Val::Bad(_) => true,
            Val::Pair(l, r) | Val::Range(l, r) | Val::Concat(l, r) | Val::Slice(l, r) | Val::Partial(l, r) => l.is_bad() || r.is_bad(),
            Val::List(items) => items.iter().any(|i| i.is_bad()),
            _ => false,
        }
    }
    /// language truthiness: false = unit or `$!`
    pub fn truthy(&self) -> bool {
        !matches!(self, Val::Unit | Val::False)
    }
    pub fn data_type(&self) -> GarnishDataType {
        match self {
            Val::Unit => GarnishDataType::Unit,
            Val::True => GarnishDataType::True,
            Val::False => GarnishDataType::False,
            Val::Int(_) | Val::Float(_) => GarnishDataType::Number,
            Val::Type(_) => GarnishDataType::Type,
            Val::Char(_) => GarnishDataType::Char,
            Val::Byte(_) => GarnishDataType::Byte,
            Val::Sym(_) => GarnishDataType::Symbol,
            Val::SymList(_) => GarnishDataType::SymbolList,
            Val::Text(_) => GarnishDataType::CharList,
            Val::Bytes(_) => GarnishDataType::ByteList,
            Val::Pair(_, _) => GarnishDataType::Pair,
            Val::Range(_, _) => GarnishDataType::Range,
            Val::Concat(_, _) => GarnishDataType::Concatenation,
            Val::Slice(_, _) => GarnishDataType::Slice,
            Val::Partial(_, _) => GarnishDataType::Partial,
            Val::List(_) => GarnishDataType::List,
            Val::Expr(_) => GarnishDataType::Expression,
            Val::External(_) => GarnishDataType::External,
            Val::Custom => GarnishDataType::Custom,
            Val::Bad(_) => GarnishDataType::Invalid,
        }
    }
    pub fn size(&self) -> usize {
        match self {
            Val::Pair(l, r) | Val::Range(l, r) | Val::Concat(l, r) | Val::Slice(l, r) | Val::Partial(l, r) => 1 + l.size() + r.size(),
            Val::List(items) => 1 + items.iter().map(|i| i.size()).sum::<usize>(),
            _ => 1,
        }
    }
    pub fn short(&self) -> String {
        let s = format!("{:?}", self);
        if s.len() > 300 {
            format!("{}…", s.chars().take(300).collect::<String>())
        } else {
            s
        }
    }
}

pub fn num_to_val(n: SimpleNumber) -> Val {
    match n {
        SimpleNumber::Integer(i) => Val::Int(i),
        // sign and payload of a not-a-number carry no meaning (and SimpleGarnishData interns all of them as one)
        SimpleNumber::Float(f) => Val::Float(if f.is_nan() { f64::NAN.to_bits() } else { f.to_bits() }),
    }
}

fn bad<E: std::fmt::Debug>(what: &str, _e: E) -> Val {
    // error texts embed addresses and lengths: keep only the getter's name
    Val::Bad(what.to_string())
}

/// Structural read-back of the value at `addr`, through the public getters only.
pub fn read_val<D: GD>(d: &D, addr: usize) -> Val {
    let mut budget = NODE_BUDGET;
    read_val_depth(d, addr, 0, &mut budget)
}

/// values are read back as trees; shared sub-values are expanded, so a budget bounds the work
pub const NODE_BUDGET: usize = 6000;
pub const OVER_BUDGET: &str = "over-node-budget";

const MAX_DEPTH: usize = 64;
const MAX_ITEMS: usize = 4096;

pub fn read_val_depth<D: GD>(d: &D, addr: usize, depth: usize, budget: &mut usize) -> Val {
    if depth > MAX_DEPTH {
        return Val::Bad("depth".into());
    }
    if *budget == 0 {
        return Val::Bad(OVER_BUDGET.into());
    }
    *budget -= 1;
    let t = match d.get_data_type(addr) {
        Ok(t) => t,
        Err(e) => return bad("get_data_type", e),
    };
    match t {
        GarnishDataType::Invalid => Val::Bad("invalid-type".into()),
        GarnishDataType::Unit => Val::Unit,
        GarnishDataType::True => Val::True,
        GarnishDataType::False => Val::False,
        GarnishDataType::Number => match d.get_number(addr) {
            Ok(n) => num_to_val(n),
            Err(e) => bad("get_number", e),
        },
        GarnishDataType::Type => match d.get_type(addr) {
            Ok(t) => Val::Type(type_to_u8(t)),
            Err(e) => bad("get_type", e),
        },
        GarnishDataType::Char => match d.get_char(addr) {
            Ok(c) => Val::Char(c),
            Err(e) => bad("get_char", e),
        },
        GarnishDataType::Byte => match d.get_byte(addr) {
            Ok(c) => Val::Byte(c),
            Err(e) => bad("get_byte", e),
        },
        GarnishDataType::Symbol => match d.get_symbol(addr) {
            Ok(c) => Val::Sym(c),
            Err(e) => bad("get_symbol", e),
        },
        GarnishDataType::Expression => match d.get_expression(addr) {
            Ok(c) => Val::Expr(c),
            Err(e) => bad("get_expression", e),
        },
        GarnishDataType::External => match d.get_external(addr) {
            Ok(c) => Val::External(c),
            Err(e) => bad("get_external", e),
        },
        GarnishDataType::CharList => {
            let len = match d.get_char_list_len(addr) {
                Ok(l) => l,
                Err(e) => return bad("get_char_list_len", e),
            };
            if len > MAX_ITEMS {
                return Val::Bad("char-list-too-long".into());
            }
            let mut s = String::new();
            for i in 0..len {
                match d.get_char_list_item(addr, SimpleNumber::Integer(i as i32)) {
                    Ok(Some(c)) => s.push(c),
                    Ok(None) => return Val::Bad("get_char_list_item-none".into()),
                    Err(e) => return bad("get_char_list_item", e),
                }
            }
            Val::Text(s)
        }
        GarnishDataType::ByteList => {
            let len = match d.get_byte_list_len(addr) {
                Ok(l) => l,
                Err(e) => return bad("get_byte_list_len", e),
            };
            if len > MAX_ITEMS {
                return Val::Bad("byte-list-too-long".into());
            }
            let mut s = Vec::new();
            for i in 0..len {
                match d.get_byte_list_item(addr, SimpleNumber::Integer(i as i32)) {
                    Ok(Some(c)) => s.push(c),
                    Ok(None) => return Val::Bad("get_byte_list_item-none".into()),
                    Err(e) => return bad("get_byte_list_item", e),
                }
            }
            Val::Bytes(s)
        }
        GarnishDataType::SymbolList => {
            let len = match d.get_symbol_list_len(addr) {
                Ok(l) => l,
                Err(e) => return bad("get_symbol_list_len", e),
            };
            if len > MAX_ITEMS {
                return Val::Bad("symbol-list-too-long".into());
            }
            let mut s = Vec::new();
            for i in 0..len {
                match d.get_symbol_list_item(addr, SimpleNumber::Integer(i as i32)) {
                    Ok(Some(SymbolListPart::Symbol(c))) => s.push(SymPart::Sym(c)),
                    Ok(Some(SymbolListPart::Number(SimpleNumber::Integer(n)))) => s.push(SymPart::Int(n)),
                    Ok(Some(SymbolListPart::Number(SimpleNumber::Float(n)))) => s.push(SymPart::Float(n.to_bits())),
                    Ok(None) => return Val::Bad("get_symbol_list_item-none".into()),
                    Err(e) => return bad("get_symbol_list_item", e),
                }
            }
            Val::SymList(s)
        }
        GarnishDataType::Pair => match d.get_pair(addr) {
            Ok((l, r)) => Val::Pair(Box::new(read_val_depth(d, l, depth + 1, budget)), Box::new(read_val_depth(d, r, depth + 1, budget))),
            Err(e) => bad("get_pair", e),
        },
        GarnishDataType::Range => match d.get_range(addr) {
            Ok((l, r)) => Val::Range(Box::new(read_val_depth(d, l, depth + 1, budget)), Box::new(read_val_depth(d, r, depth + 1, budget))),
            Err(e) => bad("get_range", e),
        },
        GarnishDataType::Concatenation => match d.get_concatenation(addr) {
            Ok((l, r)) => Val::Concat(Box::new(read_val_depth(d, l, depth + 1, budget)), Box::new(read_val_depth(d, r, depth + 1, budget))),
            Err(e) => bad("get_concatenation", e),
        },
        GarnishDataType::Slice => match d.get_slice(addr) {
            Ok((l, r)) => Val::Slice(Box::new(read_val_depth(d, l, depth + 1, budget)), Box::new(read_val_depth(d, r, depth + 1, budget))),
            Err(e) => bad("get_slice", e),
        },
        GarnishDataType::Partial => match d.get_partial(addr) {
            Ok((l, r)) => Val::Partial(Box::new(read_val_depth(d, l, depth + 1, budget)), Box::new(read_val_depth(d, r, depth + 1, budget))),
            Err(e) => bad("get_partial", e),
        },
        GarnishDataType::List => {
            let len = match d.get_list_len(addr) {
                Ok(l) => l,
                Err(e) => return bad("get_list_len", e),
            };
            if len > MAX_ITEMS {
                return Val::Bad("list-too-long".into());
            }
            let mut items = Vec::with_capacity(len);
            for i in 0..len {
                match d.get_list_item(addr, SimpleNumber::Integer(i as i32)) {
                    Ok(Some(a)) => items.push(read_val_depth(d, a, depth + 1, budget)),
                    Ok(None) => return Val::Bad("get_list_item-none".into()),
                    Err(e) => return bad("get_list_item", e),
                }
            }
            Val::List(items)
        }
        GarnishDataType::Custom => Val::Custom,
    }
}

/// For a list: the keyed view. For every item that is a pair whose left is a symbol,
/// what `get_list_item_with_symbol` returns for that symbol (structurally).
pub fn read_list_lookups<D: GD>(d: &D, addr: usize) -> Vec<(u64, Val)> {
    let mut out = vec![];
    if d.get_data_type(addr).ok() != Some(GarnishDataType::List) {
        return out;
    }
    let len = d.get_list_len(addr).unwrap_or(0).min(MAX_ITEMS);
    for i in 0..len {
        if let Ok(Some(item)) = d.get_list_item(addr, SimpleNumber::Integer(i as i32)) {
            if d.get_data_type(item).ok() == Some(GarnishDataType::Pair) {
                if let Ok((l, _)) = d.get_pair(item) {
                    if d.get_data_type(l).ok() == Some(GarnishDataType::Symbol) {
                        if let Ok(sym) = d.get_symbol(l) {
                            let v = match d.get_list_item_with_symbol(addr, sym) {
                                Ok(Some(a)) => read_val(d, a),
                                Ok(None) => Val::Bad("lookup-absent".into()),
                                Err(_) => Val::Bad("lookup-err".into()),
                            };
                            out.push((sym, v));
                        }
                    }
                }
            }
        }
    }
    out
}

/// Deep keyed view: lookups of this list and of every list nested in it.
pub fn read_lookups_deep<D: GD>(d: &D, addr: usize, depth: usize, out: &mut Vec<(u64, Val)>) {
    if depth > 6 || out.len() > 200 {
        return;
    }
    match d.get_data_type(addr) {
        Ok(GarnishDataType::List) => {
            out.extend(read_list_lookups(d, addr));
            let len = d.get_list_len(addr).unwrap_or(0).min(MAX_ITEMS);
            for i in 0..len {
                if let Ok(Some(item)) = d.get_list_item(addr, SimpleNumber::Integer(i as i32)) {
                    read_lookups_deep(d, item, depth + 1, out);
                }
            }
        }
        Ok(GarnishDataType::Pair) => {
            if let Ok((l, r)) = d.get_pair(addr) {
                read_lookups_deep(d, l, depth + 1, out);
                read_lookups_deep(d, r, depth + 1, out);
            }
        }
        Ok(GarnishDataType::Concatenation) => {
            if let Ok((l, r)) = d.get_concatenation(addr) {
                read_lookups_deep(d, l, depth + 1, out);
                read_lookups_deep(d, r, depth + 1, out);
            }
        }
        Ok(GarnishDataType::Slice) => {
            if let Ok((l, r)) = d.get_slice(addr) {
                read_lookups_deep(d, l, depth + 1, out);
                read_lookups_deep(d, r, depth + 1, out);
            }
        }
        Ok(GarnishDataType::Partial) => {
            if let Ok((l, r)) = d.get_partial(addr) {
                read_lookups_deep(d, l, depth + 1, out);
                read_lookups_deep(d, r, depth + 1, out);
            }
        }
        _ => {}
    }
}

/// Create `v` in the data object through the public add_* interface; returns its address.
pub fn materialise<D: GD>(d: &mut D, v: &Val) -> Result<usize, DataError> {
    Ok(match v {
        Val::Unit => d.add_unit()?,
        Val::True => d.add_true()?,
        Val::False => d.add_false()?,
        Val::Int(i) => d.add_number(SimpleNumber::Integer(*i))?,
        Val::Float(b) => d.add_number(SimpleNumber::Float(f64::from_bits(*b)))?,
        Val::Type(t) => d.add_type(type_from_u8(*t))?,
        Val::Char(c) => d.add_char(*c)?,
        Val::Byte(b) => d.add_byte(*b)?,
        Val::Sym(s) => d.add_symbol(*s)?,
        Val::SymList(parts) => {
            // built the way the runtime builds them: merge symbols/numbers pairwise
            if parts.is_empty() {
                return Err(DataError::from("cannot materialise empty symbol list".to_string()));
            }
            let mut addrs = vec![];
            for p in parts {
                addrs.push(match p {
                    SymPart::Sym(s) => d.add_symbol(*s)?,
                    SymPart::Int(i) => d.add_number(SimpleNumber::Integer(*i))?,
                    SymPart::Float(f) => d.add_number(SimpleNumber::Float(f64::from_bits(*f)))?,
                });
            }
            if addrs.len() == 1 {
                // a one-element symbol list cannot be produced by merging; merge with itself is not
                // equivalent, so use two parts at least
                return Err(DataError::from("cannot materialise singleton symbol list".to_string()));
            }
            let mut cur = d.merge_to_symbol_list(addrs[0], addrs[1])?;
            for a in &addrs[2..] {
                cur = d.merge_to_symbol_list(cur, *a)?;
            }
            cur
        }
        Val::Text(s) => {
            // through the literal parser: quote with a quote run longer than any inside
            let lit = quote_text(s);
            d.parse_add_char_list(&lit)?
        }
        Val::Bytes(b) => {
            let lit = quote_bytes(b);
            d.parse_add_byte_list(&lit)?
        }
        Val::Pair(l, r) => {
            let l = materialise(d, l)?;
            let r = materialise(d, r)?;
            d.add_pair((l, r))?
        }
        Val::Range(l, r) => {
            let l = materialise(d, l)?;
            let r = materialise(d, r)?;
            d.add_range(l, r)?
        }
        Val::Concat(l, r) => {
            let l = materialise(d, l)?;
            let r = materialise(d, r)?;
            d.add_concatenation(l, r)?
        }
        Val::Slice(l, r) => {
            let l = materialise(d, l)?;
            let r = materialise(d, r)?;
            d.add_slice(l, r)?
        }
        Val::Partial(l, r) => {
            let l = materialise(d, l)?;
            let r = materialise(d, r)?;
            d.add_partial(l, r)?
        }
        Val::List(items) => {
            let mut addrs = Vec::with_capacity(items.len());
            for i in items {
                addrs.push(materialise(d, i)?);
            }
            let mut l = d.start_list(addrs.len())?;
            for a in addrs {
                l = d.add_to_list(l, a)?;
            }
            d.end_list(l)?
        }
        Val::Expr(e) => d.add_expression(*e)?,
        Val::External(e) => d.add_external(*e)?,
        Val::Custom => {
            // a value of the host's own type: no interface method adds one, each implementation has its own way
            let any: &mut dyn std::any::Any = d;
            if let Some(s) = any.downcast_mut::<crate::simdata::SimpleW>() {
                s.add_custom(garnish_lang_simple_data::NoCustom {})?
            } else if let Some(b) = any.downcast_mut::<crate::simdata::BasicW>() {
                b.push_to_data_block(garnish_lang_simple_data::BasicData::Custom(()))?
            } else {
                return Err(DataError::from("cannot materialise a custom value here".to_string()));
            }
        }
        Val::Bad(_) => return Err(DataError::from("cannot materialise".to_string())),
    })
}

/// Text literal accepted by `parse_add_char_list`: only plain characters are used by the harness
/// (letters, digits, space and a few multi-byte characters), so a single pair of quotes suffices.
pub fn quote_text(s: &str) -> String {
    format!("\"{}\"", s)
}

pub fn quote_bytes(b: &[u8]) -> String {
    // bytes restricted by the harness to printable ASCII without quote/backslash
    let s: String = b.iter().map(|c| *c as char).collect();
    format!("'{}'", s)
}
