//! Reference evaluator for the core language: a direct recursive interpreter over the REAL parse
//! tree (definition, left, right of each node) with its own value model and a model host answering
//! from the same script. No registers, no jump table, no frames: it shares nothing with the builder
//! or the stack machine. It predicts the final value and the history of host calls; wherever a run
//! leaves the modelled subset it abstains (never guesses).
//!
//! Borrowed from the real crates, deliberately: literal parsing (C14) and arithmetic on two numbers
//! (C09) — neither is what C10 / C17 are about.

use crate::c08::classify;
use crate::host::{Answer, HostCall, HostScript, UNIQUE_BASE};
use crate::val::{num_to_val, type_to_u8, SymPart, Val};
use garnish_lang_compiler::parse::{Definition, ParseNode, ParseResult};
use garnish_lang_simple_data::{symbol_value, SimpleDataFactory, SimpleNumber};
use garnish_lang_traits::{GarnishDataFactory, GarnishDataType, GarnishNumber, Instruction};

#[derive(Debug, Clone, PartialEq)]
pub enum Stop {
    /// outside the model: no verdict
    Abstain(String),
    /// a callback returned Err: the run ends with Err at this point
    HostFail,
    /// `^~ v`: restart the enclosing expression with `$` = v
    Reapply(Val),
}

pub struct Evaluator<'a> {
    pub nodes: &'a [ParseNode],
    pub script: &'a HostScript,
    pub basic: bool,
    pub log: Vec<HostCall>,
    pub calls: usize,
    pub unique: i32,
    pub dollars: Vec<Val>,
    pub fuel: usize,
}

type R = Result<Val, Stop>;

fn abstain<T>(why: &str) -> Result<T, Stop> {
    Err(Stop::Abstain(why.to_string()))
}

fn to_num(v: &Val) -> Option<SimpleNumber> {
    match v {
        Val::Int(i) => Some(SimpleNumber::Integer(*i)),
        Val::Float(b) => Some(SimpleNumber::Float(f64::from_bits(*b))),
        _ => None,
    }
}

fn boolean(b: bool) -> Val {
    if b {
        Val::True
    } else {
        Val::False
    }
}

/// symbol-keyed lookup the way the two data implementations agree on it; None = outside the model
fn keyed_items(items: &[Val]) -> Option<Vec<(u64, &Val)>> {
    let mut out = vec![];
    for it in items {
        match it {
            Val::Pair(k, v) => match **k {
                Val::Sym(s) => {
                    if out.iter().any(|(k2, _)| *k2 == s) {
                        return None; // duplicate keys: which one wins is C16's business
                    }
                    out.push((s, &**v));
                }
                _ => return None,
            },
            _ => return None,
        }
    }
    Some(out)
}

/// Some(Some(v)) found, Some(None) not found, None = not a container the model covers, Err = abstain
fn lookup_symbol(container: &Val, sym: u64) -> Result<Option<Option<Val>>, Stop> {
    match container {
        Val::Pair(k, v) => match **k {
            Val::Sym(s) if s == sym => Ok(Some(Some((**v).clone()))),
            _ => Ok(Some(None)),
        },
        Val::List(items) => {
            if items.is_empty() {
                return Ok(Some(None));
            }
            match keyed_items(items) {
                Some(k) => Ok(Some(k.iter().find(|(s, _)| *s == sym).map(|(_, v)| (*v).clone()))),
                None => abstain("keyed lookup in a list with unkeyed items or duplicate keys (C16)"),
            }
        }
        Val::Slice(target, range) => match (&**target, &**range) {
            (Val::List(items), Val::Range(a, b)) => match (&**a, &**b) {
                (Val::Int(start), Val::Int(end)) => {
                    let Some(k) = keyed_items(items) else { return abstain("slice of a list with unkeyed items") };
                    if *start < 0 || items.is_empty() {
                        return abstain("slice with negative start / empty target");
                    }
                    // the runtime walks start..=end (end clipped to the last index); the latest match wins
                    let last = (*end).min(items.len() as i32 - 1);
                    let mut found = None;
                    let mut i = *start;
                    while i <= last {
                        if let Some((s, v)) = k.get(i as usize) {
                            if *s == sym {
                                found = Some((*v).clone());
                            }
                        }
                        i += 1;
                    }
                    Ok(Some(found))
                }
                _ => abstain("slice range is not numeric"),
            },
            _ => abstain("slice of something other than a list"),
        },
        Val::Concat(_, _) => {
            // flattened items, searched from the end
            let mut items = vec![];
            flatten_concat(container, &mut items);
            for it in items.iter().rev() {
                if let Val::Pair(k, v) = it {
                    if **k == Val::Sym(sym) {
                        return Ok(Some(Some((**v).clone())));
                    }
                }
            }
            Ok(Some(None))
        }
        _ => Ok(None),
    }
}

fn flatten_concat<'v>(v: &'v Val, out: &mut Vec<&'v Val>) {
    match v {
        Val::Concat(l, r) => {
            flatten_concat(l, out);
            flatten_concat(r, out);
        }
        Val::List(items) => out.extend(items.iter()),
        other => out.push(other),
    }
}

fn structural_eq(a: &Val, b: &Val) -> Result<bool, Stop> {
    Ok(match (a, b) {
        (Val::Unit, Val::Unit) | (Val::True, Val::True) | (Val::False, Val::False) => true,
        (Val::Int(_) | Val::Float(_), Val::Int(_) | Val::Float(_)) => to_num(a).unwrap() == to_num(b).unwrap(),
        (Val::Sym(x), Val::Sym(y)) => x == y,
        (Val::Type(x), Val::Type(y)) => x == y,
        (Val::Char(x), Val::Char(y)) => x == y,
        (Val::Byte(x), Val::Byte(y)) => x == y,
        (Val::External(x), Val::External(y)) => x == y,
        (Val::Text(x), Val::Text(y)) => x == y,
        (Val::Bytes(x), Val::Bytes(y)) => x == y,
        (Val::Pair(a1, a2), Val::Pair(b1, b2)) => structural_eq(a1, b1)? && structural_eq(a2, b2)?,
        (Val::List(x), Val::List(y)) => {
            if x.len() != y.len() {
                false
            } else {
                let mut all = true;
                for (i, j) in x.iter().zip(y.iter()) {
                    if !structural_eq(i, j)? {
                        all = false;
                        break;
                    }
                }
                all
            }
        }
        // everything involving these is left to C11
        (Val::Concat(..) | Val::Slice(..) | Val::Range(..) | Val::Partial(..) | Val::Expr(_) | Val::SymList(_) | Val::Custom | Val::Bad(_), _)
        | (_, Val::Concat(..) | Val::Slice(..) | Val::Range(..) | Val::Partial(..) | Val::Expr(_) | Val::SymList(_) | Val::Custom | Val::Bad(_)) => return abstain("equality on a value kind outside the model (C11)"),
        (Val::Char(_), Val::Text(_)) | (Val::Text(_), Val::Char(_)) | (Val::Byte(_), Val::Bytes(_)) | (Val::Bytes(_), Val::Byte(_)) => return abstain("char/text equality (C11)"),
        // any other mix of kinds (a list against a scalar or a pair included) is unequal; lists against
        // concatenations / slices were sent to C11 above
        _ => false,
    })
}

impl<'a> Evaluator<'a> {
    pub fn new(tree: &'a ParseResult, script: &'a HostScript, basic: bool, input: Val) -> Self {
        Evaluator { nodes: tree.get_nodes(), script, basic, log: vec![], calls: 0, unique: 0, dollars: vec![input], fuel: 20_000 }
    }

    /// evaluate the whole program (with top-level reapply support)
    pub fn run(&mut self, root: usize) -> R {
        loop {
            match self.eval(root) {
                Err(Stop::Reapply(v)) => {
                    *self.dollars.last_mut().unwrap() = v;
                    self.burn(10)?;
                }
                other => return other,
            }
        }
    }

    fn burn(&mut self, n: usize) -> Result<(), Stop> {
        if self.fuel < n {
            return abstain("evaluator fuel exhausted");
        }
        self.fuel -= n;
        Ok(())
    }

    fn node(&self, i: usize) -> Result<&'a ParseNode, Stop> {
        match self.nodes.get(i) {
            Some(n) => Ok(n),
            None => abstain("dangling node index"),
        }
    }

    fn dollar(&self) -> Val {
        self.dollars.last().cloned().unwrap_or(Val::Unit)
    }

    fn answer(&mut self, a: &Answer) -> Result<(bool, Option<Val>), Stop> {
        match a {
            Answer::Decline => Ok((false, None)),
            Answer::Unique => {
                self.unique += 1;
                Ok((true, Some(Val::Int(UNIQUE_BASE + self.unique))))
            }
            Answer::Provide(v) => Ok((true, Some(v.clone()))),
            Answer::Fail => Err(Stop::HostFail),
            Answer::Churn(_, then) | Answer::Compact(then) | Answer::Reenter(then) => self.answer(then),
            Answer::LieNoPush | Answer::LiePushTwo => abstain("misbehaving host"),
        }
    }

    fn host_resolve(&mut self, sym: u64) -> R {
        let k = self.calls;
        self.calls += 1;
        let a = match self.script.nth_override.get(&k) {
            Some(a) => a.clone(),
            None => match self.script.resolve.get(&sym) {
                Some(a) => a.clone(),
                None => self.script.resolve_default.clone().unwrap_or(Answer::Decline),
            },
        };
        match self.answer(&a) {
            Ok((ok, gave)) => {
                self.log.push(HostCall::Resolve { sym, answer: if ok { "accept" } else { "decline" }.to_string(), gave: gave.clone() });
                Ok(gave.unwrap_or(Val::Unit))
            }
            Err(Stop::HostFail) => {
                self.log.push(HostCall::Resolve { sym, answer: "fail".into(), gave: None });
                Err(Stop::HostFail)
            }
            Err(e) => Err(e),
        }
    }

    fn host_apply(&mut self, ext: usize, arg: &Val) -> R {
        if !self.basic {
            // SimpleGarnishData does not expose the apply hook: the shipped default declines silently
            return Ok(Val::Unit);
        }
        let k = self.calls;
        self.calls += 1;
        let a = match self.script.nth_override.get(&k) {
            Some(a) => a.clone(),
            None => match self.script.apply.get(&ext) {
                Some(a) => a.clone(),
                None => self.script.apply_default.clone().unwrap_or(Answer::Decline),
            },
        };
        match self.answer(&a) {
            Ok((ok, gave)) => {
                self.log.push(HostCall::Apply { ext, arg: arg.clone(), answer: if ok { "accept" } else { "decline" }.to_string(), gave: gave.clone() });
                Ok(gave.unwrap_or(Val::Unit))
            }
            Err(Stop::HostFail) => {
                self.log.push(HostCall::Apply { ext, arg: arg.clone(), answer: "fail".into(), gave: None });
                Err(Stop::HostFail)
            }
            Err(e) => Err(e),
        }
    }

    fn host_defer(&mut self, instr: Instruction, l: &Val, r: &Val, unary: bool) -> R {
        let k = self.calls;
        self.calls += 1;
        let a = match self.script.nth_override.get(&k) {
            Some(a) => a.clone(),
            None => self.script.defer_default.clone().unwrap_or(Answer::Decline),
        };
        let (lt, rt) = (type_to_u8(l.data_type()), if unary { type_to_u8(GarnishDataType::Unit) } else { type_to_u8(r.data_type()) });
        let mk = |answer: &str, gave: Option<Val>| HostCall::Defer {
            instr: format!("{:?}", instr),
            lt,
            l: if l.data_type() == GarnishDataType::Unit { Val::Unit } else { l.clone() },
            rt,
            r: if unary { Val::Unit } else { r.clone() },
            laddr: 0,
            raddr: 0,
            answer: answer.to_string(),
            gave,
        };
        match self.answer(&a) {
            Ok((ok, gave)) => {
                self.log.push(mk(if ok { "accept" } else { "decline" }, gave.clone()));
                Ok(gave.unwrap_or(Val::Unit))
            }
            Err(Stop::HostFail) => {
                self.log.push(mk("fail", None));
                Err(Stop::HostFail)
            }
            Err(e) => Err(e),
        }
    }

    /// identifier semantics: the current input value first, then the host, then unit
    fn resolve(&mut self, sym: u64) -> R {
        let d = self.dollar();
        match lookup_symbol(&d, sym)? {
            Some(Some(v)) => Ok(v),
            // not found, or `$` is not a container: the host is asked
            Some(None) | None => self.host_resolve(sym),
        }
    }

    fn child(&self, n: &ParseNode, left: bool) -> Result<usize, Stop> {
        match if left { n.get_left() } else { n.get_right() } {
            Some(i) => Ok(i),
            None => abstain("operator without operand"),
        }
    }

    /// side-effect blocks hang off value nodes as children: left child before the value, right child after
    fn with_attached(&mut self, n: &ParseNode, v: Val) -> R {
        // the value's own instruction is emitted between its two children
        Ok(v).and_then(|v| {
            if let Some(r) = n.get_right() {
                self.eval(r)?;
            }
            Ok(v)
        })
    }

    pub fn eval(&mut self, idx: usize) -> R {
        self.burn(1)?;
        let n = self.node(idx)?;
        use Definition as D;
        let def = n.get_definition();
        // value-like nodes
        if matches!(def, D::Number | D::CharList | D::ByteList | D::Symbol | D::Unit | D::True | D::False | D::Value | D::Identifier | D::Property) {
            if let Some(l) = n.get_left() {
                self.eval(l)?;
            }
            let text = n.text();
            let v = match def {
                D::Number => match SimpleDataFactory::parse_number(text) {
                    Ok(x) => num_to_val(x),
                    Err(_) => return abstain("unparsable number literal"),
                },
                D::CharList => match SimpleDataFactory::parse_char_list(text) {
                    Ok(s) => {
                        if !text.is_ascii() {
                            return abstain("non-ascii text literal (C14)");
                        }
                        Val::Text(s.into_iter().collect())
                    }
                    Err(_) => return abstain("unparsable text literal"),
                },
                D::ByteList => match SimpleDataFactory::parse_byte_list(text) {
                    Ok(b) => Val::Bytes(b),
                    Err(_) => return abstain("unparsable byte literal"),
                },
                D::Symbol => Val::Sym(symbol_value(text.trim_matches(':'))),
                D::Unit => Val::Unit,
                D::True => Val::True,
                D::False => Val::False,
                D::Value => self.dollar(),
                D::Identifier => self.resolve(symbol_value(text.trim_matches(':')))?,
                D::Property => Val::Sym(symbol_value(text.trim_matches(':'))),
                _ => unreachable!(),
            };
            return self.with_attached(n, v);
        }
        match def {
            D::Group => match n.get_right() {
                Some(r) => self.eval(r),
                None => abstain("empty group"),
            },
            D::SideEffect => {
                // body sees the same `$`; its value is dropped. As a stand-alone node it yields nothing: only
                // reached through value nodes (with_attached) in programs the generator makes
                match n.get_right() {
                    Some(r) => {
                        let d = self.dollar();
                        self.dollars.push(d);
                        let res = self.eval(r);
                        self.dollars.pop();
                        res?;
                        Ok(Val::Unit)
                    }
                    None => abstain("empty side effect"),
                }
            }
            D::NestedExpression => match n.get_right() {
                Some(r) => Ok(Val::Expr(r)),
                None => abstain("empty nested expression"),
            },
            D::Not | D::Tis => {
                let v = self.eval(self.child(n, false)?)?;
                Ok(boolean(if def == D::Not { !v.truthy() } else { v.truthy() }))
            }
            D::Opposite | D::AbsoluteValue | D::BitwiseNot => {
                let v = self.eval(self.child(n, false)?)?;
                let instr = match def {
                    D::Opposite => Instruction::Opposite,
                    D::AbsoluteValue => Instruction::AbsoluteValue,
                    _ => Instruction::BitwiseNot,
                };
                match to_num(&v) {
                    Some(x) => {
                        let r = match def {
                            D::Opposite => x.opposite(),
                            D::AbsoluteValue => x.absolute_value(),
                            _ => x.bitwise_not(),
                        };
                        Ok(r.map(num_to_val).unwrap_or(Val::Unit))
                    }
                    None => self.host_defer(instr, &v, &Val::Unit, true),
                }
            }
            D::TypeOf => {
                let v = self.eval(self.child(n, false)?)?;
                Ok(Val::Type(type_to_u8(v.data_type())))
            }
            D::AccessLeftInternal | D::AccessRightInternal | D::AccessLengthInternal => {
                let (instr, operand) = match def {
                    D::AccessLeftInternal => (Instruction::AccessLeftInternal, self.child(n, false)?),
                    D::AccessRightInternal => (Instruction::AccessRightInternal, self.child(n, true)?),
                    _ => (Instruction::AccessLengthInternal, self.child(n, true)?),
                };
                let v = self.eval(operand)?;
                match (&v, instr) {
                    (Val::Pair(l, _), Instruction::AccessLeftInternal) => Ok((**l).clone()),
                    (Val::Pair(_, r), Instruction::AccessRightInternal) => Ok((**r).clone()),
                    (Val::Pair(l, _), Instruction::AccessLengthInternal) => Ok(if matches!(**l, Val::Sym(_)) { Val::Int(1) } else { Val::Unit }),
                    (Val::List(items), Instruction::AccessLengthInternal) => Ok(Val::Int(items.len() as i32)),
                    (Val::Text(s), Instruction::AccessLengthInternal) => {
                        if !s.is_ascii() {
                            return abstain("length of non-ascii text (C14)");
                        }
                        Ok(Val::Int(s.chars().count() as i32))
                    }
                    (Val::Bytes(b), Instruction::AccessLengthInternal) => Ok(Val::Int(b.len() as i32)),
                    _ => match classify(instr, None, v.data_type()) {
                        Some("deferred") => self.host_defer(instr, &v, &Val::Unit, true),
                        _ => abstain("internal accessor on a kind outside the model"),
                    },
                }
            }
            D::EmptyApply => {
                let f = self.eval(self.child(n, true)?)?;
                self.apply(Instruction::EmptyApply, f, Val::Unit)
            }
            D::Addition | D::Subtraction | D::MultiplicationSign | D::Division | D::IntegerDivision | D::Remainder | D::ExponentialSign | D::BitwiseAnd | D::BitwiseOr | D::BitwiseXor | D::BitwiseLeftShift | D::BitwiseRightShift => {
                let l = self.eval(self.child(n, true)?)?;
                let r = self.eval(self.child(n, false)?)?;
                let instr = match def {
                    D::Addition => Instruction::Add,
                    D::Subtraction => Instruction::Subtract,
                    D::MultiplicationSign => Instruction::Multiply,
                    D::Division => Instruction::Divide,
                    D::IntegerDivision => Instruction::IntegerDivide,
                    D::Remainder => Instruction::Remainder,
                    D::ExponentialSign => Instruction::Power,
                    D::BitwiseAnd => Instruction::BitwiseAnd,
                    D::BitwiseOr => Instruction::BitwiseOr,
                    D::BitwiseXor => Instruction::BitwiseXor,
                    D::BitwiseLeftShift => Instruction::BitwiseShiftLeft,
                    _ => Instruction::BitwiseShiftRight,
                };
                match (to_num(&l), to_num(&r)) {
                    (Some(a), Some(b)) => {
                        let res = match instr {
                            Instruction::Add => a.plus(b),
                            Instruction::Subtract => a.subtract(b),
                            Instruction::Multiply => a.multiply(b),
                            Instruction::Divide => a.divide(b),
                            Instruction::IntegerDivide => a.integer_divide(b),
                            Instruction::Remainder => a.remainder(b),
                            Instruction::Power => a.power(b),
                            Instruction::BitwiseAnd => a.bitwise_and(b),
                            Instruction::BitwiseOr => a.bitwise_or(b),
                            Instruction::BitwiseXor => a.bitwise_xor(b),
                            Instruction::BitwiseShiftLeft => a.bitwise_shift_left(b),
                            _ => a.bitwise_shift_right(b),
                        };
                        Ok(res.map(num_to_val).unwrap_or(Val::Unit))
                    }
                    _ => self.host_defer(instr, &l, &r, false),
                }
            }
            D::LessThan | D::LessThanOrEqual | D::GreaterThan | D::GreaterThanOrEqual => {
                let l = self.eval(self.child(n, true)?)?;
                let r = self.eval(self.child(n, false)?)?;
                use std::cmp::Ordering;
                let ord: Option<Ordering> = match (&l, &r) {
                    (Val::Int(_) | Val::Float(_), Val::Int(_) | Val::Float(_)) => match to_num(&l).unwrap().partial_cmp(&to_num(&r).unwrap()) {
                        Some(o) => Some(o),
                        None => return Ok(Val::Unit),
                    },
                    (Val::Char(a), Val::Char(b)) => a.partial_cmp(b),
                    (Val::Byte(a), Val::Byte(b)) => a.partial_cmp(b),
                    (Val::Text(a), Val::Text(b)) => Some(a.chars().cmp(b.chars())),
                    (Val::Bytes(a), Val::Bytes(b)) => Some(a.cmp(b)),
                    (Val::Slice(..), Val::Slice(..)) => return abstain("slice comparison (C12)"),
                    _ => None,
                };
                Ok(boolean(match (def, ord) {
                    (_, None) => false,
                    (D::LessThan, Some(o)) => o.is_lt(),
                    (D::LessThanOrEqual, Some(o)) => o.is_le(),
                    (D::GreaterThan, Some(o)) => o.is_gt(),
                    (_, Some(o)) => o.is_ge(),
                }))
            }
            D::Equality | D::Inequality => {
                let l = self.eval(self.child(n, true)?)?;
                let r = self.eval(self.child(n, false)?)?;
                let e = structural_eq(&l, &r)?;
                Ok(boolean(if def == D::Equality { e } else { !e }))
            }
            D::TypeEqual => {
                let l = self.eval(self.child(n, true)?)?;
                let r = self.eval(self.child(n, false)?)?;
                if matches!(l, Val::Type(_)) || matches!(r, Val::Type(_)) {
                    return abstain("type-equal with a type value operand");
                }
                Ok(boolean(l.data_type() == r.data_type()))
            }
            D::And => {
                let l = self.eval(self.child(n, true)?)?;
                if !l.truthy() {
                    return Ok(Val::False);
                }
                let r = self.eval(self.child(n, false)?)?;
                Ok(boolean(r.truthy()))
            }
            D::Or => {
                let l = self.eval(self.child(n, true)?)?;
                if l.truthy() {
                    return Ok(Val::True);
                }
                let r = self.eval(self.child(n, false)?)?;
                Ok(boolean(r.truthy()))
            }
            D::Xor => {
                let l = self.eval(self.child(n, true)?)?;
                let r = self.eval(self.child(n, false)?)?;
                Ok(boolean(l.truthy() != r.truthy()))
            }
            D::Pair => {
                // the right side is evaluated first
                let r = self.eval(self.child(n, false)?)?;
                let l = self.eval(self.child(n, true)?)?;
                Ok(Val::pair(l, r))
            }
            D::List | D::CommaList => {
                let mut items = vec![];
                self.list_items(idx, def, &mut items)?;
                Ok(Val::List(items))
            }
            D::Access => {
                let l = self.eval(self.child(n, true)?)?;
                let r = self.eval(self.child(n, false)?)?;
                self.access(l, r)
            }
            D::Apply => {
                let f = self.eval(self.child(n, true)?)?;
                let a = self.eval(self.child(n, false)?)?;
                self.apply(Instruction::Apply, f, a)
            }
            D::ApplyTo => {
                // `arg ~> f`: the callee (right) is evaluated first
                let f = self.eval(self.child(n, false)?)?;
                let a = self.eval(self.child(n, true)?)?;
                self.apply(Instruction::Apply, f, a)
            }
            D::PrefixApply | D::SuffixApply => {
                let name = n.text().trim_matches('`').trim_matches(':');
                let f = self.resolve(symbol_value(name))?;
                let operand = if def == D::PrefixApply { self.child(n, false)? } else { self.child(n, true)? };
                let a = self.eval(operand)?;
                self.apply(Instruction::Apply, f, a)
            }
            D::InfixApply => {
                let name = n.text().trim_matches('`').trim_matches(':');
                let f = self.resolve(symbol_value(name))?;
                let l = self.eval(self.child(n, true)?)?;
                let r = self.eval(self.child(n, false)?)?;
                self.apply(Instruction::Apply, f, Val::List(vec![l, r]))
            }
            D::JumpIfTrue | D::JumpIfFalse => {
                let c = self.eval(self.child(n, true)?)?;
                let take = if def == D::JumpIfTrue { c.truthy() } else { !c.truthy() };
                if take {
                    self.eval(self.child(n, false)?)
                } else {
                    Ok(self.dollar())
                }
            }
            D::ElseJump => {
                let mut links = vec![];
                self.chain_links(idx, &mut links)?;
                let last = links.len() - 1;
                for (i, link) in links.iter().enumerate() {
                    let ln = self.node(*link)?;
                    match ln.get_definition() {
                        D::JumpIfTrue | D::JumpIfFalse => {
                            let c = self.eval(self.child(ln, true)?)?;
                            let take = if ln.get_definition() == D::JumpIfTrue { c.truthy() } else { !c.truthy() };
                            if take {
                                return self.eval(self.child(ln, false)?);
                            }
                        }
                        _ => {
                            if i != last {
                                return abstain("else-chain with a plain link before its end");
                            }
                            return self.eval(*link);
                        }
                    }
                }
                abstain("else-chain without default and no arm taken (finding D1)")
            }
            D::Reapply => {
                let v = self.eval(self.child(n, false)?)?;
                Err(Stop::Reapply(v))
            }
            D::Subexpression | D::ExpressionSeparator => {
                let l = self.eval(self.child(n, true)?)?;
                match self.dollars.last_mut() {
                    Some(d) => *d = l,
                    None => return abstain("no input value"),
                }
                self.eval(self.child(n, false)?)
            }
            _ => abstain(&format!("construct outside the model: {:?}", def)),
        }
    }

    fn list_items(&mut self, idx: usize, kind: Definition, out: &mut Vec<Val>) -> Result<(), Stop> {
        let n = self.node(idx)?;
        for side in [n.get_left(), n.get_right()] {
            if let Some(c) = side {
                let cn = self.node(c)?;
                if cn.get_definition() == kind {
                    self.list_items(c, kind, out)?;
                } else {
                    let v = self.eval(c)?;
                    out.push(v);
                }
            }
        }
        Ok(())
    }

    fn chain_links(&self, idx: usize, out: &mut Vec<usize>) -> Result<(), Stop> {
        let n = self.node(idx)?;
        let l = self.child(n, true)?;
        let r = self.child(n, false)?;
        if self.node(l)?.get_definition() == Definition::ElseJump {
            self.chain_links(l, out)?;
        } else {
            out.push(l);
        }
        if self.node(r)?.get_definition() == Definition::ElseJump {
            return abstain("right-nested else-chain");
        }
        out.push(r);
        Ok(())
    }

    fn access(&mut self, l: Val, r: Val) -> R {
        match (&l, &r) {
            (Val::Pair(..) | Val::List(_), Val::Sym(s)) => match lookup_symbol(&l, *s)? {
                Some(Some(v)) => Ok(v),
                _ => Ok(Val::Unit),
            },
            (Val::List(items), Val::Int(i)) => {
                if *i < 0 {
                    Ok(Val::Unit)
                } else if (*i as usize) < items.len() {
                    Ok(items[*i as usize].clone())
                } else {
                    abstain("list index out of range (C16)")
                }
            }
            (Val::Pair(k, _), Val::Int(i)) => Ok(if *i == 0 && matches!(**k, Val::Sym(_)) { l.clone() } else { Val::Unit }),
            (Val::Sym(a), Val::Sym(b)) => Ok(Val::SymList(vec![SymPart::Sym(*a), SymPart::Sym(*b)])),
            (Val::SymList(a), Val::Sym(b)) => {
                let mut v = a.clone();
                v.push(SymPart::Sym(*b));
                Ok(Val::SymList(v))
            }
            (Val::Sym(a), Val::SymList(b)) => {
                let mut v = vec![SymPart::Sym(*a)];
                v.extend(b.iter().cloned());
                Ok(Val::SymList(v))
            }
            (Val::SymList(a), Val::SymList(b)) => {
                let mut v = a.clone();
                v.extend(b.iter().cloned());
                Ok(Val::SymList(v))
            }
            _ => match classify(Instruction::Access, Some(l.data_type()), r.data_type()) {
                Some("deferred") => self.host_defer(Instruction::Access, &l, &r, false),
                _ => abstain("access on kinds outside the model"),
            },
        }
    }

    fn apply(&mut self, instr: Instruction, f: Val, arg: Val) -> R {
        self.burn(5)?;
        match (&f, &arg) {
            (Val::Expr(body), _) => {
                self.dollars.push(arg.clone());
                if self.dollars.len() > 200 {
                    self.dollars.pop();
                    return abstain("call depth");
                }
                let res = loop {
                    match self.eval(*body) {
                        Err(Stop::Reapply(v)) => {
                            *self.dollars.last_mut().unwrap() = v;
                            if let Err(e) = self.burn(10) {
                                break Err(e);
                            }
                        }
                        other => break other,
                    }
                };
                self.dollars.pop();
                res
            }
            (Val::External(n), _) => self.host_apply(*n, &arg),
            (Val::Partial(..), _) => abstain("partial application"),
            _ if instr == Instruction::EmptyApply => match classify(instr, None, f.data_type()) {
                Some("deferred") => self.host_defer(instr, &f, &Val::Unit, true),
                _ => abstain("empty apply on a kind outside the model"),
            },
            (Val::List(_), Val::Int(_)) | (Val::Pair(..), Val::Int(_)) | (Val::Pair(..), Val::Sym(_)) | (Val::List(_), Val::Sym(_)) => self.access(f, arg),
            _ => match classify(Instruction::Apply, Some(f.data_type()), arg.data_type()) {
                Some("deferred") => self.host_defer(Instruction::Apply, &f, &arg, false),
                _ => abstain("apply on kinds outside the model"),
            },
        }
    }
}

/// expression values are opaque to the comparison (node index here, jump-table index in the real run)
pub fn erase_expr(v: &Val) -> Val {
    match v {
        Val::Expr(_) => Val::Expr(0),
        Val::Pair(l, r) => Val::Pair(Box::new(erase_expr(l)), Box::new(erase_expr(r))),
        Val::Range(l, r) => Val::Range(Box::new(erase_expr(l)), Box::new(erase_expr(r))),
        Val::Concat(l, r) => Val::Concat(Box::new(erase_expr(l)), Box::new(erase_expr(r))),
        Val::Slice(l, r) => Val::Slice(Box::new(erase_expr(l)), Box::new(erase_expr(r))),
        Val::Partial(l, r) => Val::Partial(Box::new(erase_expr(l)), Box::new(erase_expr(r))),
        Val::List(items) => Val::List(items.iter().map(erase_expr).collect()),
        other => other.clone(),
    }
}

pub fn erase_call(c: &HostCall) -> String {
    let g = |v: &Option<Val>| v.as_ref().map(erase_expr);
    match c {
        HostCall::Resolve { sym, answer, gave } => format!("resolve({sym}) -> {answer} {:?}", g(gave)),
        HostCall::Apply { ext, arg, answer, gave } => format!("apply(external {ext}, {:?}) -> {answer} {:?}", erase_expr(arg), g(gave)),
        HostCall::Defer { instr, lt, l, rt, r, answer, gave, .. } => format!("defer({instr}, {lt}:{:?}, {rt}:{:?}) -> {answer} {:?}", erase_expr(l), erase_expr(r), g(gave)),
    }
}
