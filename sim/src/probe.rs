//! developer tools: generator acceptance probe and single-program demo (not used by any check)
use crate::gen;
use crate::host::*;
use crate::rng;
use crate::simdata::*;
use crate::val::*;
use crate::world::*;
use std::collections::BTreeMap;

pub fn demo<D: SimData>(src: &str) {
    let mut d = D::create(Host::new(HostScript { resolve_default: Some(Answer::Unique), ..Default::default() }), &Knobs::default()).unwrap();
    let b = compile(&mut d, src);
    println!("{} build: {}", D::KIND, b.tag());
    if let Some(b) = b.built() {
        start(&mut d, b.entry_jump, &Val::Unit).unwrap();
        for _ in 0..1000 {
            let ins = current_instruction(&d);
            let r = step(&mut d);
            println!("  {:?} -> {:?} depths {:?}", ins, r.tag(), depths(&d));
            if r != StepResult::Running {
                println!("  {:?}", r);
                break;
            }
        }
        println!("  result {:?}", current_value(&d));
        println!("  log {:?}", d.host().log.iter().map(|c| c.structural()).collect::<Vec<_>>());
    } else {
        println!("{:?}", b);
    }
}

pub fn demo_both(src: &str) {
    demo::<SimpleW>(src);
    demo::<BasicW>(src);
}

pub fn probe<D: SimData>(profile: &str, n: usize) {
    let mut tally: BTreeMap<String, usize> = BTreeMap::new();
    let mut samples: BTreeMap<String, String> = BTreeMap::new();
    for i in 0..n {
        let mut rng = rng::Rng::new(rng::run_seed(1, 99, i as u64));
        let budget = rng.range(2, 30);
        let cfg = match profile {
            "core" => gen::GenCfg::core(budget),
            "heapy" => gen::GenCfg::heapy(budget),
            _ => gen::GenCfg::full(budget),
        };
        let mut g = gen::Gen::new(&mut rng, cfg);
        let prog = g.program();
        let src = if std::env::var("PROBE_MIN").is_ok() { prog.min() } else { prog.top() };
        if std::env::var("PROBE_TRACE").is_ok() {
            eprintln!("#{} {:?}", i, src);
        }
        let mut d = D::create(Host::new(HostScript { resolve_default: Some(Answer::Unique), ..Default::default() }), &Knobs::default()).unwrap();
        let b = compile(&mut d, &src);
        let key = match &b {
            BuildOutcome::Ok(b) => {
                start(&mut d, b.entry_jump, &Val::Unit).unwrap();
                let mut out = "budget".to_string();
                for _ in 0..3000 {
                    match step(&mut d) {
                        StepResult::Running => {}
                        StepResult::End => {
                            out = "end".into();
                            break;
                        }
                        StepResult::Err { msg, .. } => {
                            let m: String = msg.chars().filter(|c| !c.is_ascii_digit()).collect();
                            out = format!("err: {}", &m[..m.len().min(110)]);
                            break;
                        }
                        StepResult::Panic(p) => {
                            out = format!("panic: {p}");
                            break;
                        }
                    }
                }
                out
            }
            BuildOutcome::LexErr(m) | BuildOutcome::ParseErr(m) => format!("{}: {}", b.tag(), &m[..m.len().min(100)]),
            BuildOutcome::BuildErr { msg, .. } => format!("build-err: {}", &msg[..msg.len().min(100)]),
            BuildOutcome::Panic(p) => format!("build-panic: {p}"),
        };
        *tally.entry(key.clone()).or_default() += 1;
        let e = samples.entry(key).or_insert(src.clone());
        if src.len() < e.len() {
            *e = src;
        }
    }
    for (k, v) in &tally {
        println!("{:6} {}\n         e.g. {:?}", v, k, samples[k]);
    }
}

pub fn probe_both(profile: &str, n: usize) {
    probe::<SimpleW>(profile, n);
    println!("-------- basic");
    probe::<BasicW>(profile, n);
}

/// developer tool: which token kinds the generator's programs contain (reach of the workload alphabet)
pub fn tokens(profile: &str, n: usize) {
    let mut tally: BTreeMap<String, usize> = BTreeMap::new();
    for i in 0..n {
        let mut rng = rng::Rng::new(rng::run_seed(1, 98, i as u64));
        let budget = rng.range(2, 30);
        let cfg = match profile {
            "core" => gen::GenCfg::core(budget),
            "heapy" => gen::GenCfg::heapy(budget),
            _ => gen::GenCfg::full(budget),
        };
        let mut g = gen::Gen::new(&mut rng, cfg);
        let prog = g.program();
        for src in [prog.min(), prog.top()] {
            if let Ok(toks) = garnish_lang_compiler::lex::lex(&src) {
                for t in toks {
                    *tally.entry(format!("{:?}", t.get_token_type())).or_default() += 1;
                }
            }
        }
    }
    for (k, v) in &tally {
        println!("{:8} {}", v, k);
    }
}

pub fn annot_probe<D: SimData>(n: usize) {
    let mut tally: BTreeMap<String, usize> = BTreeMap::new();
    let mut samples: BTreeMap<String, String> = BTreeMap::new();
    for i in 0..n {
        let mut rng = rng::Rng::new(rng::run_seed(1, 97, i as u64));
        let budget = rng.range(2, 30);
        let mut g = gen::Gen::new(&mut rng, gen::GenCfg::full(budget));
        let prog = g.program();
        let src = if rng.chance(1, 2) { prog.min() } else { prog.top() };
        let ann = gen::annotate(&src, &mut rng, 30);
        let run = |s: &str| -> String {
            let mut d = D::create(Host::new(HostScript { resolve_default: Some(Answer::Unique), ..Default::default() }), &Knobs::default()).unwrap();
            let b = compile(&mut d, s);
            match &b {
                BuildOutcome::Ok(b) => {
                    start(&mut d, b.entry_jump, &Val::Unit).unwrap();
                    let mut st = "budget".to_string();
                    for _ in 0..3000 {
                        match step(&mut d) {
                            StepResult::Running => {}
                            StepResult::End => {
                                st = "end".into();
                                break;
                            }
                            _ => {
                                st = "err".into();
                                break;
                            }
                        }
                    }
                    format!("{} {:?} {:?}", st, current_value(&d), d.host().log.iter().map(|c| c.structural()).collect::<Vec<_>>())
                }
                other => other.tag().to_string(),
            }
        };
        let a = run(&src);
        let b = run(&ann);
        let key = if a == b { "same".to_string() } else { format!("DIFF {} / {}", &a[..a.len().min(40)], &b[..b.len().min(40)]) };
        *tally.entry(key.clone()).or_default() += 1;
        let e = samples.entry(key).or_insert(ann.clone());
        if ann.len() < e.len() {
            *e = ann;
        }
    }
    for (k, v) in &tally {
        println!("{:6} {}\n         e.g. {:?}", v, k, samples[k]);
    }
}
