//! The simulated host: the only stubbed component. It lives *inside* the data object
//! (SimpleGarnishData's auxiliary data / BasicGarnishData's companion) so that the real
//! callbacks `resolve`, `apply`, `defer_op` reach it. Every decision is a function of the
//! query and of the script fixed at run start; nothing here draws randomness.

use crate::val::{materialise, read_val, type_to_u8, Val, GD};
use garnish_lang_simple_data::DataError;
use garnish_lang_traits::{GarnishDataType, Instruction};
use serde::{Deserialize, Serialize};
use std::collections::BTreeMap;

#[derive(Clone, Debug, PartialEq, Eq, Serialize, Deserialize)]
pub enum Answer {
    /// return Ok(false)
    Decline,
    /// push a fresh unique number (1_000_000 + call counter) and return Ok(true)
    Unique,
    /// push this value and return Ok(true)
    Provide(Val),
    /// return Err
    Fail,
    /// allocate `n` scratch values first (forces reallocation mid-instruction), then answer
    Churn(u32, Box<Answer>),
    /// misbehaving host (C07 only): Ok(true) without pushing anything
    LieNoPush,
    /// misbehaving host (C07 only): push two values, Ok(true)
    LiePushTwo,
    /// BasicGarnishData: compact the store (`optimize(&[])`) inside the callback, then answer. The operands of
    /// the operation being offered are off the stacks by then; the host may not use their addresses afterwards
    /// and the scripted host does not. Skipped when the host's `compacts_in_callbacks` is off (twin worlds).
    Compact(Box<Answer>),
    /// the host re-enters the runtime inside the callback: it pushes two operands of its own (a symbol and a
    /// number), runs `ops::add` on them through the public runtime entry point - an undefined combination, which
    /// the runtime must offer to the host again (that nested offer is declined) -, drops the result and then answers
    Reenter(Box<Answer>),
}

impl Answer {
    pub fn kind(&self) -> &'static str {
        match self {
            Answer::Decline => "decline",
            Answer::Unique => "unique",
            Answer::Provide(_) => "provide",
            Answer::Fail => "fail",
            Answer::Churn(_, _) => "churn",
            Answer::Compact(_) => "compact-in-callback",
            Answer::Reenter(_) => "reenter-in-callback",
            Answer::LieNoPush => "lie-nopush",
            Answer::LiePushTwo => "lie-pushtwo",
        }
    }
}

#[derive(Clone, Debug, Default, PartialEq, Eq, Serialize, Deserialize)]
pub struct HostScript {
    /// by symbol value
    pub resolve: BTreeMap<u64, Answer>,
    pub resolve_default: Option<Answer>,
    /// by external number
    pub apply: BTreeMap<usize, Answer>,
    pub apply_default: Option<Answer>,
    pub defer_default: Option<Answer>,
    /// override for the k-th callback of the run (0-based, all kinds counted together)
    pub nth_override: BTreeMap<usize, Answer>,
    /// a host that answers an offered Apply / EmptyApply by running an expression of its own inside the callback
    /// (push input, push frame, step until the frame returns) leaves the instruction cursor on the instruction
    /// after the apply. This flag reproduces exactly that residue: when it accepts such an offer the host also
    /// sets the cursor to the next instruction. (For every other offered instruction the shipped executor
    /// reads the cursor after the callback, so a host may not move it there; the flag is inert for those.)
    #[serde(default)]
    pub leaves_cursor_after_apply: bool,
}

#[derive(Clone, Debug, PartialEq, Eq, Hash, Serialize, Deserialize)]
pub enum HostCall {
    Resolve { sym: u64, answer: String, gave: Option<Val> },
    Apply { ext: usize, arg: Val, answer: String, gave: Option<Val> },
    Defer { instr: String, lt: u8, l: Val, rt: u8, r: Val, laddr: usize, raddr: usize, answer: String, gave: Option<Val> },
}

impl HostCall {
    /// the same call with expression values taken relative to jump entry `j0`
    pub fn rebase_expr(&self, j0: usize) -> HostCall {
        let g = |v: &Option<Val>| v.as_ref().map(|x| x.rebase_expr(j0));
        match self {
            HostCall::Resolve { sym, answer, gave } => HostCall::Resolve { sym: *sym, answer: answer.clone(), gave: g(gave) },
            HostCall::Apply { ext, arg, answer, gave } => HostCall::Apply { ext: *ext, arg: arg.rebase_expr(j0), answer: answer.clone(), gave: g(gave) },
            HostCall::Defer { instr, lt, l, rt, r, laddr, raddr, answer, gave } => HostCall::Defer {
                instr: instr.clone(),
                lt: *lt,
                l: l.rebase_expr(j0),
                rt: *rt,
                r: r.rebase_expr(j0),
                laddr: *laddr,
                raddr: *raddr,
                answer: answer.clone(),
                gave: g(gave),
            },
        }
    }

    /// the part compared between twin worlds / with the reference evaluator (no addresses)
    pub fn structural(&self) -> String {
        match self {
            HostCall::Resolve { sym, answer, gave } => format!("R({sym},{answer},{:?})", gave),
            HostCall::Apply { ext, arg, answer, gave } => format!("A({ext},{:?},{answer},{:?})", arg, gave),
            HostCall::Defer { instr, lt, l, rt, r, answer, gave, .. } => format!("D({instr},{lt},{:?},{rt},{:?},{answer},{:?})", l, r, gave),
        }
    }
}

#[derive(Clone, Debug, Default)]
pub struct Host {
    pub script: HostScript,
    pub log: Vec<HostCall>,
    /// number of callbacks so far in this run
    pub calls: usize,
    /// unique-value counter
    pub unique: i32,
    pub log_cap: usize,
    pub overflow: bool,
    /// fault counters (fired, not configured)
    pub fired_fail: usize,
    pub fired_decline: usize,
    pub fired_churn: usize,
    pub fired_lie: usize,
    pub fired_accept: usize,
    pub fired_compact_in_callback: usize,
    pub fired_reenter: usize,
    /// > 0 while the host is inside a callback that re-entered the runtime: offers made meanwhile are declined
    pub nesting: usize,
    /// twin worlds (the "nothing happened" reference) turn this off: `Answer::Compact` then only answers
    pub compacts_in_callbacks: bool,
    /// when false the host records nothing and declines everything (cheap no-op mode)
    pub recording: bool,
}

// BasicDataCompanion requires these; the host never takes part in data-object equality.
impl PartialEq for Host {
    fn eq(&self, _other: &Self) -> bool {
        true
    }
}
impl Eq for Host {}
impl PartialOrd for Host {
    fn partial_cmp(&self, _other: &Self) -> Option<std::cmp::Ordering> {
        Some(std::cmp::Ordering::Equal)
    }
}

impl Host {
    pub fn new(script: HostScript) -> Self {
        Host { script, log: vec![], calls: 0, unique: 0, log_cap: 4000, overflow: false, fired_fail: 0, fired_decline: 0, fired_churn: 0, fired_lie: 0, fired_accept: 0, fired_compact_in_callback: 0, fired_reenter: 0, nesting: 0, compacts_in_callbacks: true, recording: true }
    }

    pub fn reset_run(&mut self) {
        self.log.clear();
        self.calls = 0;
        self.unique = 0;
        self.overflow = false;
    }

    fn record(&mut self, c: HostCall) {
        if self.log.len() < self.log_cap {
            self.log.push(c);
        } else {
            self.overflow = true;
        }
    }
}

pub trait HasHost {
    fn host(&self) -> &Host;
    fn host_mut(&mut self) -> &mut Host;
}

pub const UNIQUE_BASE: i32 = 1_000_000;

/// Make every answer of the script's resolve callback compact the store first (BasicGarnishData; inert elsewhere).
pub fn compact_in_resolve(script: &mut HostScript) {
    let wrap = |a: Answer| if matches!(a, Answer::Compact(_)) { a } else { Answer::Compact(Box::new(a)) };
    let d = script.resolve_default.clone().unwrap_or(Answer::Decline);
    script.resolve_default = Some(wrap(d));
    for (_, a) in script.resolve.iter_mut() {
        *a = wrap(a.clone());
    }
}

/// Carry out an answer: returns Ok(true)/Ok(false)/Err as the callback's result and the value given.
fn perform<D: GD + HasHost>(data: &mut D, answer: &Answer) -> Result<(bool, Option<Val>), DataError> {
    match answer {
        Answer::Decline => {
            data.host_mut().fired_decline += 1;
            Ok((false, None))
        }
        Answer::Unique => {
            let n = {
                let h = data.host_mut();
                h.unique += 1;
                h.fired_accept += 1;
                UNIQUE_BASE + h.unique
            };
            let v = Val::Int(n);
            let a = materialise(data, &v)?;
            data.push_register(a)?;
            Ok((true, Some(v)))
        }
        Answer::Provide(v) => {
            data.host_mut().fired_accept += 1;
            let a = materialise(data, v)?;
            data.push_register(a)?;
            Ok((true, Some(v.clone())))
        }
        Answer::Fail => {
            data.host_mut().fired_fail += 1;
            Err(DataError::from("simulated host failure".to_string()))
        }
        Answer::Churn(n, then) => {
            data.host_mut().fired_churn += 1;
            for i in 0..*n {
                let a = data.add_number(garnish_lang_simple_data::SimpleNumber::Integer(7_000_000 + i as i32))?;
                let b = data.add_symbol(0xC0FFEE + i as u64)?;
                data.add_pair((b, a))?;
            }
            perform(data, then)
        }
        Answer::Compact(then) => {
            if data.host().compacts_in_callbacks {
                let any: &mut dyn std::any::Any = data;
                if let Some(b) = any.downcast_mut::<crate::simdata::BasicW>() {
                    // a refused compaction (store full) changes nothing the host relies on
                    if b.optimize(&[]).is_ok() {
                        b.companion_mut().fired_compact_in_callback += 1;
                    }
                }
            }
            perform(data, then)
        }
        Answer::Reenter(then) => {
            {
                let h = data.host_mut();
                h.fired_reenter += 1;
                h.nesting += 1;
            }
            let inner = (|| -> Result<(), DataError> {
                let s = data.add_symbol(0x5EED_CAFE)?;
                let n = data.add_number(garnish_lang_simple_data::SimpleNumber::Integer(3))?;
                data.push_register(s)?;
                data.push_register(n)?;
                garnish_lang_runtime::ops::add(data).map_err(|e| DataError::from(format!("nested operation of the host failed: {:?}", e)))?;
                data.pop_register()?;
                Ok(())
            })();
            data.host_mut().nesting -= 1;
            inner?;
            perform(data, then)
        }
        Answer::LieNoPush => {
            data.host_mut().fired_lie += 1;
            Ok((true, None))
        }
        Answer::LiePushTwo => {
            data.host_mut().fired_lie += 1;
            let a = data.add_unit()?;
            data.push_register(a)?;
            let b = data.add_true()?;
            data.push_register(b)?;
            Ok((true, None))
        }
    }
}

pub fn host_resolve<D: GD + HasHost>(data: &mut D, sym: u64) -> Result<bool, DataError> {
    if !data.host().recording {
        return Ok(false);
    }
    let answer = {
        let h = data.host_mut();
        let k = h.calls;
        h.calls += 1;
        match h.script.nth_override.get(&k) {
            Some(a) => a.clone(),
            None => match h.script.resolve.get(&sym) {
                Some(a) => a.clone(),
                None => h.script.resolve_default.clone().unwrap_or(Answer::Decline),
            },
        }
    };
    let r = perform(data, &answer);
    let (ok, gave) = match &r {
        Ok((b, g)) => (if *b { "accept" } else { "decline" }, g.clone()),
        Err(_) => ("fail", None),
    };
    data.host_mut().record(HostCall::Resolve { sym, answer: ok.to_string(), gave });
    r.map(|(b, _)| b)
}

pub fn host_apply<D: GD + HasHost>(data: &mut D, ext: usize, input_addr: usize) -> Result<bool, DataError> {
    if !data.host().recording {
        return Ok(false);
    }
    let arg = read_val(data, input_addr);
    let answer = {
        let h = data.host_mut();
        let k = h.calls;
        h.calls += 1;
        match h.script.nth_override.get(&k) {
            Some(a) => a.clone(),
            None => match h.script.apply.get(&ext) {
                Some(a) => a.clone(),
                None => h.script.apply_default.clone().unwrap_or(Answer::Decline),
            },
        }
    };
    let r = perform(data, &answer);
    let (ok, gave) = match &r {
        Ok((b, g)) => (if *b { "accept" } else { "decline" }, g.clone()),
        Err(_) => ("fail", None),
    };
    data.host_mut().record(HostCall::Apply { ext, arg, answer: ok.to_string(), gave });
    r.map(|(b, _)| b)
}

pub fn host_defer<D: GD + HasHost>(data: &mut D, op: Instruction, left: (GarnishDataType, usize), right: (GarnishDataType, usize)) -> Result<bool, DataError> {
    if !data.host().recording {
        return Ok(false);
    }
    // unary operations pass `(Unit, 0)` as their right operand: address 0 is a placeholder, not a value
    let l = if left.0 == GarnishDataType::Unit { Val::Unit } else { read_val(data, left.1) };
    let r_ = if right.0 == GarnishDataType::Unit { Val::Unit } else { read_val(data, right.1) };
    let answer = {
        let h = data.host_mut();
        let k = h.calls;
        h.calls += 1;
        if h.nesting > 0 {
            Answer::Decline
        } else {
            match h.script.nth_override.get(&k) {
                Some(a) => a.clone(),
                None => h.script.defer_default.clone().unwrap_or(Answer::Decline),
            }
        }
    };
    let r = perform(data, &answer);
    if data.host().script.leaves_cursor_after_apply && matches!(op, Instruction::Apply | Instruction::EmptyApply) && matches!(r, Ok((true, _))) {
        let next = data.get_instruction_cursor() + 1;
        if next < data.get_instruction_len() {
            let _ = data.set_instruction_cursor(next);
        }
    }
    let (ok, gave) = match &r {
        Ok((b, g)) => (if *b { "accept" } else { "decline" }, g.clone()),
        Err(_) => ("fail", None),
    };
    data.host_mut().record(HostCall::Defer {
        instr: format!("{:?}", op),
        lt: type_to_u8(left.0),
        l,
        rt: type_to_u8(right.0),
        r: r_,
        laddr: left.1,
        raddr: right.1,
        answer: ok.to_string(),
        gave,
    });
    r.map(|(b, _)| b)
}
