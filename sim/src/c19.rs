//! C19 — compaction (`optimize`) and `clone_data` preserve everything reachable.
//! BasicGarnishData only (the implementation that has them). Compaction, cloning and host
//! allocations are injected at seeded step boundaries of running programs; an uncompacted,
//! unlimited twin world runs the same program and must agree step for step.

use crate::campaign::{drop_each, Campaign, Outcome, Tier};
use crate::gen::{gen_input, Gen, GenCfg};
use crate::host::{compact_in_resolve, Answer, HasHost, Host, HostScript};
use crate::rng::{Fnv, Rng};
use crate::simdata::{BasicW, BlockKnob, Knobs, SimData, Strat};
use crate::val::{materialise, read_lookups_deep, read_val, Val};
use crate::world::{compile, current_instruction, guarded, observe, start, step, BuildOutcome, Built, Obs, StepResult};
use garnish_lang_simple_data::symbol_value;
use garnish_lang_traits::GarnishData;
use serde::{Deserialize, Serialize};
use serde_json::{json, Value};

#[derive(Clone, Debug, Serialize, Deserialize, PartialEq)]
pub enum RootSel {
    /// a value the host holds (index modulo number held)
    Held(usize),
    /// an address that is also on the operand stack
    Operand(usize),
    /// the address that is the current `$`
    CurrentValue,
    /// an address inside the retained prefix
    Retained(usize),
}

#[derive(Clone, Debug, Serialize, Deserialize, PartialEq)]
pub enum BEv {
    Optimize(Vec<RootSel>),
    CloneHeld(usize),
    HostAdd(Val),
    /// the host builds a pair (one selector repeated = a shared sub-value) or a list out of values it
    /// already holds: new values referencing old addresses
    HostShare(Vec<usize>),
    /// clone_data of a value that is also on a stack (operand i, or the current `$` when None)
    CloneStack(Option<usize>),
    /// the host registers a symbol name at run time (after the retention point): parse_add_symbol
    HostSymbol(String),
    /// retain_all_current_data at this point: everything allocated so far — values the host holds, results,
    /// and, in the middle of a run, the stack entries themselves — becomes part of the retained prefix
    RetainAll,
    /// the host assembles a list front to back: start_list first, then the items are created, added, end_list —
    /// the list's slots lie *before* the values they name
    HostAddForward(Vec<Val>),
    /// set_data_retention_count to the data length the host noted after one of its own earlier allocations
    /// (only ever raising the count): a retention point that is not "everything so far"
    RetainMark(usize),
    /// the host replaces the current input value in place (`*get_current_value_mut() = address of a new value`),
    /// in both worlds: from here on `$` is that value
    SetCurrent(Val),
}

#[derive(Clone, Debug, Serialize, Deserialize)]
pub struct Sc19 {
    pub knobs: Knobs,
    pub programs: Vec<String>,
    /// how many of the programs are covered by the retained prefix (Retain after that many builds)
    pub retained: usize,
    pub run_program: usize,
    pub input: Val,
    pub script: HostScript,
    /// events between the builds and the start of the run: no stack exists yet, so everything past the
    /// retained prefix is garbage or held by the host
    #[serde(default)]
    pub pre: Vec<BEv>,
    /// boundary k = after k steps (0 = before the first step)
    pub boundaries: Vec<Vec<BEv>>,
    /// after the explicit boundaries: compact after every n-th step (0 = never)
    pub tail_every: usize,
    pub max_steps: usize,
}

pub struct C19;

fn random_block(rng: &mut Rng) -> BlockKnob {
    let init = *rng.pick(&[0usize, 1, 2, 3, 10]);
    let strat = if init >= 1 && rng.chance(1, 3) { Strat::Mult(*rng.pick(&[2usize, 3])) } else { Strat::Fixed(*rng.pick(&[1usize, 2, 3, 7, 10])) };
    BlockKnob { init, max: usize::MAX, strat }
}

pub fn random_knobs(rng: &mut Rng) -> Knobs {
    Knobs { instr: random_block(rng), jump: random_block(rng), symtab: random_block(rng), exprsym: random_block(rng), data: random_block(rng), custom: random_block(rng) }
}

pub fn random_value(rng: &mut Rng, depth: usize) -> Val {
    let sym = |k: &str| Val::Sym(symbol_value(k));
    let leaf = |rng: &mut Rng| match rng.below(12) {
        8 => {
            let mut ks = vec!["ka", "kb", "kc", "zz"];
            rng.shuffle(&mut ks);
            Val::SymList(ks[..rng.range(2, 3)].iter().map(|k| crate::val::SymPart::Sym(symbol_value(k))).collect())
        }
        9 => Val::Type(rng.range(1, 20) as u8),
        10 => Val::Byte(*rng.pick(&[0u8, 7, 255])),
        11 => Val::External(rng.below(4)),
        0 => Val::Unit,
        1 => Val::True,
        2 => Val::Int(rng.range_i(-5, 500) as i32),
        3 => Val::Text(rng.pick(&["a", "hello", "xyz w", ""]).to_string()),
        4 => sym(*rng.pick(&["ka", "kb", "kc", "zz"])),
        5 => Val::Char('q'),
        6 => Val::Bytes(b"abc"[..rng.range(1, 3)].to_vec()),
        _ => Val::Float((rng.below(100) as f64 / 4.0).to_bits()),
    };
    if depth == 0 {
        return leaf(rng);
    }
    match rng.below(10) {
        9 => Val::Partial(Box::new(random_value(rng, 0)), Box::new(random_value(rng, depth - 1))),
        0 | 1 => {
            let n = rng.range(0, 4);
            Val::List((0..n).map(|_| random_value(rng, depth - 1)).collect())
        }
        2 | 3 => {
            // keyed list with distinct keys
            let mut ks = vec!["ka", "kb", "kc", "kd"];
            rng.shuffle(&mut ks);
            let n = rng.range(1, 4);
            Val::List(ks[..n].iter().map(|k| Val::pair(sym(k), random_value(rng, depth - 1))).collect())
        }
        4 => Val::pair(random_value(rng, depth - 1), random_value(rng, depth - 1)),
        5 => Val::Concat(Box::new(random_value(rng, depth - 1)), Box::new(random_value(rng, depth - 1))),
        6 => Val::Range(Box::new(Val::Int(rng.below(3) as i32)), Box::new(Val::Int(3 + rng.below(4) as i32))),
        7 => Val::Slice(
            Box::new(Val::List((0..rng.range(2, 5)).map(|i| Val::Int(i as i32 * 10)).collect())),
            Box::new(Val::Range(Box::new(Val::Int(0)), Box::new(Val::Int(2)))),
        ),
        _ => leaf(rng),
    }
}

fn random_roots(rng: &mut Rng) -> Vec<RootSel> {
    let n = *rng.pick(&[0usize, 0, 1, 1, 2, 3, 5]);
    (0..n)
        .map(|_| match rng.below(8) {
            0 => RootSel::Operand(rng.below(4)),
            1 => RootSel::CurrentValue,
            2 => RootSel::Retained(rng.below(40)),
            _ => RootSel::Held(rng.below(6)),
        })
        .collect()
}

impl Campaign for C19 {
    type Scenario = Sc19;
    fn prop(&self) -> &'static str {
        "C19"
    }
    fn id(&self) -> u64 {
        19
    }
    fn runs(&self, tier: Tier) -> u64 {
        match tier {
            Tier::Quick => 40_000,
            Tier::Thorough => 6_000_000,
        }
    }

    fn generate(&self, rng: &mut Rng, _tier: Tier, _index: u64) -> Sc19 {
        let mut knobs = if rng.chance(1, 2) { Knobs::default() } else { random_knobs(rng) };
        // F1: a capacity an uncompacted run of a looping program would exceed
        if rng.chance(1, 4) {
            knobs.data.max = rng.range(80, 700).max(knobs.data.init);
        }
        let nprog = rng.range(1, 3);
        let mut programs = vec![];
        let mut keys = vec![];
        for _ in 0..nprog {
            let budget = rng.range(4, 40);
            let mut cfg = GenCfg::heapy(budget);
            cfg.w_cast = 0; // casts read layout (range → list sizes from addresses): outside C19
            keys = cfg.keys.clone();
            let mut g = Gen::new(rng, cfg);
            let p = if g.rng.chance(1, 4) { g.counted_loop(budget.max(8)) } else { g.program() };
            let printed = g.print(&p);
            programs.push(printed);
        }
        let retained = if rng.chance(4, 5) { nprog } else { rng.range(1, nprog) };
        let run_program = rng.below(retained);
        let input = gen_input(rng, &keys);
        let mut script = HostScript::default();
        script.resolve_default = Some(match rng.below(6) {
            0 => Answer::Decline,
            1 => Answer::Churn(rng.range(1, 12) as u32, Box::new(Answer::Unique)),
            _ => Answer::Unique,
        });
        for name in ["f1", "f2"] {
            script.resolve.insert(symbol_value(name), Answer::Decline);
        }
        if rng.chance(1, 2) {
            script.resolve.insert(symbol_value("t3"), Answer::Provide(random_value(rng, 2)));
        }
        script.resolve.insert(symbol_value("x1"), Answer::Provide(Val::External(rng.below(3))));
        script.apply_default = Some(if rng.chance(1, 2) { Answer::Unique } else { Answer::Provide(random_value(rng, 1)) });
        script.defer_default = Some(if rng.chance(1, 4) { Answer::Unique } else { Answer::Decline });
        if rng.chance(1, 8) {
            // the host compacts the store inside its deferred-operation / external-apply callback, then answers
            let d = script.defer_default.clone().unwrap();
            script.defer_default = Some(Answer::Compact(Box::new(d)));
            if rng.chance(1, 2) {
                let ap = script.apply_default.clone().unwrap_or(Answer::Decline);
                script.apply_default = Some(Answer::Compact(Box::new(ap)));
            }
        }

        // schedule
        let cadence = rng.below(20);
        let nb = rng.range(4, 120);
        let every = rng.range(2, 7);
        let q = *rng.pick(&[1u32, 6, 20]);
        // a fifth of the runs move the retention point while the program is in flight
        let retain_midway = rng.chance(1, 5);
        let mut boundaries = vec![];
        for k in 0..nb {
            let mut evs = vec![];
            if rng.chance(1, 10) {
                evs.push(BEv::HostAdd(random_value(rng, 2)));
            }
            if rng.chance(1, 30) {
                evs.push(BEv::HostAddForward((0..rng.range(1, 4)).map(|_| random_value(rng, 0)).collect()));
            }
            if rng.chance(1, 10) {
                evs.push(BEv::CloneHeld(rng.below(6)));
            }
            if rng.chance(1, 12) {
                let n = rng.range(2, 4);
                evs.push(BEv::HostShare((0..n).map(|_| rng.below(4)).collect()));
            }
            if rng.chance(1, 14) {
                evs.push(BEv::CloneStack(if rng.chance(1, 2) { None } else { Some(rng.below(4)) }));
            }
            if rng.chance(1, 12) {
                evs.push(BEv::HostSymbol(format!("hs{}", rng.below(40))));
            }
            if retain_midway && rng.chance(1, 25) {
                evs.push(if rng.chance(1, 2) { BEv::RetainAll } else { BEv::RetainMark(rng.below(8)) });
            }
            let opt = match cadence {
                0 => false,
                1..=5 => true,
                6..=11 => k % every == 0,
                _ => rng.chance(q, 64),
            };
            if opt {
                evs.push(BEv::Optimize(random_roots(rng)));
                if rng.chance(1, 12) {
                    // back-to-back compaction
                    evs.push(BEv::Optimize(random_roots(rng)));
                }
            }
            if rng.chance(1, 14) {
                evs.push(BEv::CloneHeld(rng.below(6)));
            }
            boundaries.push(evs);
        }
        let tail_every = match cadence {
            0 => 0,
            1..=5 => 1,
            _ => every,
        };
        // before the run starts: compaction with nothing past the retained prefix, roots inside the prefix
        let mut pre = vec![];
        if rng.chance(1, 3) {
            for _ in 0..rng.range(1, 4) {
                match rng.below(7) {
                    6 => pre.push(BEv::HostAddForward((0..rng.range(1, 4)).map(|_| random_value(rng, 0)).collect())),
                    5 => pre.push(if rng.chance(1, 2) { BEv::RetainAll } else { BEv::RetainMark(rng.below(8)) }),
                    0 => pre.push(BEv::HostAdd(random_value(rng, 2))),
                    1 => pre.push(BEv::HostSymbol(format!("hs{}", rng.below(40)))),
                    2 => pre.push(BEv::Optimize(vec![RootSel::Retained(rng.below(40)), RootSel::Retained(rng.below(40))])),
                    _ => pre.push(BEv::Optimize(random_roots(rng))),
                }
            }
        }
        // (last draw, so that earlier scenarios keep their shape) the host compacts the store inside its *resolve*
        // callback as well: the runtime holds no address across that callback, so this is legal host behaviour
        if rng.chance(1, 10) {
            compact_in_resolve(&mut script);
        }
        // (last draws as well) the host replaces the current input value in place at a few step boundaries
        if rng.chance(1, 6) {
            for _ in 0..rng.range(1, 3) {
                let k = rng.below(boundaries.len().min(40));
                let at = rng.below(boundaries[k].len() + 1);
                boundaries[k].insert(at, BEv::SetCurrent(random_value(rng, 1)));
            }
        }
        Sc19 { knobs, programs, retained, run_program, input, script, pre, boundaries, tail_every, max_steps: 1500 }
    }

    fn execute(&self, sc: &Sc19) -> Outcome {
        execute(sc)
    }

    fn shrink(&self, sc: &Sc19) -> Vec<Sc19> {
        let mut out = vec![];
        if !sc.pre.is_empty() {
            for d in drop_each(&sc.pre) {
                let mut c = sc.clone();
                c.pre = d;
                out.push(c);
            }
        }
        // fewer boundaries (cut the tail first), fewer events per boundary
        if sc.tail_every != 0 {
            let mut c = sc.clone();
            c.tail_every = 0;
            out.push(c);
        }
        let mut n = sc.boundaries.len();
        while n > 0 {
            n /= 2;
            let mut c = sc.clone();
            c.boundaries.truncate(n);
            out.push(c);
        }
        for (i, b) in sc.boundaries.iter().enumerate() {
            if !b.is_empty() {
                let mut c = sc.clone();
                c.boundaries[i] = vec![];
                out.push(c);
                for d in drop_each(b) {
                    let mut c = sc.clone();
                    c.boundaries[i] = d;
                    out.push(c);
                }
                for (j, e) in b.iter().enumerate() {
                    if let BEv::Optimize(r) = e {
                        if !r.is_empty() {
                            for d in drop_each(r) {
                                let mut c = sc.clone();
                                c.boundaries[i][j] = BEv::Optimize(d);
                                out.push(c);
                            }
                        }
                    }
                }
            }
        }
        // shrink the program that runs, textually
        for cand in crate::c06::shrink_source(&sc.programs[sc.run_program]) {
            let mut c = sc.clone();
            c.programs[sc.run_program] = cand;
            out.push(c);
        }
        // drop programs that are not run
        if sc.programs.len() > 1 {
            for i in 0..sc.programs.len() {
                if i != sc.run_program {
                    let mut c = sc.clone();
                    c.programs.remove(i);
                    if c.run_program > i {
                        c.run_program -= 1;
                    }
                    c.retained = c.retained.min(c.programs.len()).max(c.run_program + 1);
                    out.push(c);
                }
            }
        }
        if sc.knobs != Knobs::default() {
            let mut c = sc.clone();
            c.knobs = Knobs::default();
            out.push(c);
        }
        if sc.input != Val::Unit {
            let mut c = sc.clone();
            c.input = Val::Unit;
            out.push(c);
        }
        if sc.script != HostScript::default() {
            let mut c = sc.clone();
            c.script = HostScript { resolve_default: Some(Answer::Unique), ..Default::default() };
            out.push(c);
        }
        if sc.max_steps > 50 {
            let mut c = sc.clone();
            c.max_steps /= 2;
            out.push(c);
        }
        out
    }

    fn seeded(&self) -> Vec<Sc19> {
        // the clone-then-compact history (finding D6) as an explicit regression seed
        vec![Sc19 {
            knobs: Knobs::default(),
            programs: vec!["5 + 6".to_string()],
            retained: 1,
            run_program: 0,
            input: Val::Unit,
            script: HostScript::default(),
            pre: vec![],
            boundaries: vec![vec![
                BEv::HostAdd(Val::List(vec![Val::Int(1), Val::text("abc")])),
                BEv::CloneHeld(0),
                BEv::Optimize(vec![RootSel::Held(0), RootSel::Held(1)]),
            ]],
            tail_every: 0,
            max_steps: 100,
        },
        // D20 (fixed): the retention point moved after the input was pushed; the result is written at the end
        Sc19 {
            knobs: Knobs::default(),
            programs: vec!["1, 1, 1".to_string()],
            retained: 1,
            run_program: 0,
            input: Val::Unit,
            script: HostScript::default(),
            pre: vec![],
            boundaries: { let mut b = vec![vec![]; 26]; b[0] = vec![BEv::RetainAll]; b[25] = vec![BEv::Optimize(vec![])]; b },
            tail_every: 0,
            max_steps: 100,
        },
        // D29 (fixed): the retention point moves after the input was pushed, then the host replaces `$` in place
        Sc19 {
            knobs: Knobs::default(),
            programs: vec!["1, $, $, $".to_string()],
            retained: 1,
            run_program: 0,
            input: Val::Int(5),
            script: HostScript::default(),
            pre: vec![],
            boundaries: { let mut b = vec![vec![]; 6]; b[0] = vec![BEv::RetainAll]; b[1] = vec![BEv::HostAdd(Val::text("garbage")), BEv::SetCurrent(Val::Int(77))]; b[2] = vec![BEv::Optimize(vec![])]; b },
            tail_every: 0,
            max_steps: 100,
        },
        // D20: a reapply loop running across a retention point, compacted afterwards
        Sc19 {
            knobs: Knobs::default(),
            programs: vec!["{ $ < 6 ?> ^~ ($ + 1) |> $ } <~ 1".to_string()],
            retained: 1,
            run_program: 0,
            input: Val::Unit,
            script: HostScript::default(),
            pre: vec![],
            boundaries: { let mut b = vec![vec![]; 40]; b[9] = vec![BEv::RetainAll]; b[20] = vec![BEv::Optimize(vec![])]; b[30] = vec![BEv::Optimize(vec![RootSel::CurrentValue])]; b },
            tail_every: 0,
            max_steps: 200,
        }]
    }

    fn haystack(&self, sc: &Sc19) -> String {
        let mut s = sc.programs.join("\n----\n");
        for b in std::iter::once(&sc.pre).chain(sc.boundaries.iter()) {
            for e in b {
                s.push_str(match e {
                    BEv::Optimize(_) => " optimize",
                    BEv::CloneHeld(_) | BEv::CloneStack(_) => " clone_data",
                    BEv::HostAdd(_) | BEv::HostAddForward(_) => " host_add",
                    BEv::HostShare(_) => " host_share",
                    BEv::HostSymbol(_) => " host_symbol",
                    BEv::RetainAll => " retain_all",
                    BEv::RetainMark(_) => " retain_mark",
                    BEv::SetCurrent(_) => " set_current",
                });
            }
        }
        s
    }

    fn rule(&self) -> String {
        "one run = 1..3 generated programs built into one BasicGarnishData (retained after build), one of them stepped under a seeded host script while optimize / clone_data (of held values and of values that are on a stack) / host allocations / host values built out of addresses it already holds (shared sub-values) / symbol names registered at run time are injected at seeded step boundaries (cadence: never, every step, every n-th, Bernoulli), with random extra-root multisets (held values, addresses already on a stack, retained-prefix addresses, duplicates), random growth knobs and, in a quarter of runs, a data-block capacity limit; an uncompacted unlimited twin runs the same program. distinct = distinct scenario (programs + knobs + host script + schedule) hash; non-trivial = the run executed at least one successful optimize or clone_data while a program was in flight".to_string()
    }

    fn components(&self) -> Value {
        json!({"real": ["lexer", "parser", "builder", "runtime ops / execute_current_instruction", "BasicGarnishData incl. optimize, clone_data, reallocate_heap"], "stub": ["host callbacks (scripted)", "twin world is the same real code without the disturbance"]})
    }

    fn assumptions(&self) -> Vec<String> {
        vec![
            "the host calls retain_all_current_data after builds (constants are not roots otherwise)".into(),
            "a failed optimize (Err) gives no verdict for that call and ends the run".into(),
            "error messages are not compared, only Ok/Err status".into(),
        ]
    }
}

struct Snapshot {
    obs: Obs,
    symbols: Vec<(u64, Option<String>)>,
    constants: Vec<(usize, Val)>,
    instr: Vec<(String, Option<usize>)>,
    jumps: Vec<Option<usize>>,
}

fn snapshot(d: &BasicW, symbols: &[u64], const_addrs: &[usize]) -> Snapshot {
    let r = guarded(|| Snapshot {
        obs: observe(d),
        symbols: symbols.iter().map(|s| (*s, d.symbol_name(*s))).collect(),
        constants: const_addrs.iter().map(|a| (*a, read_val(d, *a))).collect(),
        instr: (0..d.get_instruction_len()).map(|i| d.get_instruction(i).map(|(a, b)| (format!("{:?}", a), b)).unwrap_or(("none".into(), None))).collect(),
        jumps: (0..d.get_jump_table_len()).map(|i| d.get_from_jump_table(i)).collect(),
    });
    match r {
        Ok(s) => s,
        Err(p) => Snapshot { obs: Obs { cursor: usize::MAX, operands: vec![Val::Bad(format!("snapshot panic {p}"))], values: vec![], frames: vec![] }, symbols: vec![], constants: vec![], instr: vec![], jumps: vec![] },
    }
}

fn diff_snapshot(a: &Snapshot, b: &Snapshot) -> Option<(String, String)> {
    if a.obs.operands != b.obs.operands {
        return Some(("C19.O1.operand-stack".into(), format!("before {:?} after {:?}", short(&a.obs.operands), short(&b.obs.operands))));
    }
    if a.obs.values != b.obs.values {
        return Some(("C19.O1.value-stack".into(), format!("before {:?} after {:?}", short(&a.obs.values), short(&b.obs.values))));
    }
    if a.obs.frames != b.obs.frames {
        return Some(("C19.O1.frame-chain".into(), format!("before {:?} after {:?}", a.obs.frames, b.obs.frames)));
    }
    if a.obs.cursor != b.obs.cursor {
        return Some(("C19.O1.cursor".into(), format!("before {} after {}", a.obs.cursor, b.obs.cursor)));
    }
    if a.symbols != b.symbols {
        return Some(("C19.O1.symbol-names".into(), format!("before {:?} after {:?}", a.symbols, b.symbols)));
    }
    if a.constants != b.constants {
        let i = a.constants.iter().zip(b.constants.iter()).position(|(x, y)| x != y).unwrap_or(0);
        return Some(("C19.O1.retained-constant".into(), format!("addr {} before {} after {}", a.constants[i].0, a.constants[i].1.short(), b.constants.get(i).map(|c| c.1.short()).unwrap_or_default())));
    }
    if a.instr != b.instr || a.jumps != b.jumps {
        return Some(("C19.O1.code".into(), "instructions or jump table changed".into()));
    }
    None
}

fn short(v: &[Val]) -> String {
    let s = format!("{:?}", v);
    if s.len() > 240 {
        format!("{}…", s.chars().take(240).collect::<String>())
    } else {
        s
    }
}

fn build_all(d: &mut BasicW, sc: &Sc19, out: &mut Outcome) -> Option<Vec<Built>> {
    let mut built = vec![];
    for (i, src) in sc.programs.iter().enumerate() {
        match compile(d, src) {
            BuildOutcome::Ok(b) => built.push(b),
            other => {
                out.abstain = Some(format!("program-{}", other.tag()));
                return None;
            }
        }
        if i + 1 <= sc.retained {
            d.retain_all_current_data();
        }
    }
    Some(built)
}

pub fn execute(sc: &Sc19) -> Outcome {
    let mut out = Outcome::default();
    let mut th = Fnv::new();
    let mut sh = Fnv::new();
    if sc.programs.is_empty() || sc.run_program >= sc.programs.len() {
        out.abstain = Some("empty-scenario".into());
        return out;
    }
    // world A: disturbed; world B: twin, default unlimited store, never compacted
    let mut a = match BasicW::create(Host::new(sc.script.clone()), &sc.knobs) {
        Ok(d) => d,
        Err(_) => {
            out.abstain = Some("create-failed".into());
            return out;
        }
    };
    let mut b = BasicW::create(Host::new(sc.script.clone()), &Knobs::default()).expect("default world");
    // the reference world is the one in which nothing happens: its host never compacts inside a callback either
    b.host_mut().compacts_in_callbacks = false;
    // builds happen with the host silent
    a.host_mut().recording = false;
    b.host_mut().recording = false;
    let built_a = match build_all(&mut a, sc, &mut out) {
        Some(x) => x,
        None => {
            // store-full during build in the capped world is an F1 firing, not a verdict
            return out;
        }
    };
    let built_b = match build_all(&mut b, sc, &mut out) {
        Some(x) => x,
        None => return out,
    };
    a.host_mut().recording = true;
    b.host_mut().recording = true;
    let pa = &built_a[sc.run_program];
    let pb = &built_b[sc.run_program];
    // symbols the host knows by name; constants named by retained programs' instructions
    let mut symbols: Vec<u64> = vec![];
    for k in ["ka", "kb", "kc", "n", "v", "t1", "t2", "t3", "f1", "f2", "x1", "s"] {
        symbols.push(symbol_value(k));
    }
    let mut const_addrs: Vec<usize> = vec![];
    for p in built_a.iter().take(sc.retained) {
        for i in p.instr.0..p.instr.1 {
            if let Some((ins, Some(operand))) = a.get_instruction(i) {
                use garnish_lang_traits::Instruction::*;
                if matches!(ins, Put | Resolve) {
                    const_addrs.push(operand);
                }
            }
        }
    }
    let mut held: Vec<(usize, Val)> = vec![];
    // data lengths the host noted right after each of its own allocations
    let mut marks: Vec<usize> = vec![];
    let mut steps = 0usize;
    // the run is "ended" until it is started: the pre-start events go through the same code as boundary events
    let mut ended = true;
    let mut started = false;
    let mut optimizes_ok = 0u64;
    let mut clones_ok = 0u64;
    let mut k = 0usize;
    let mut log_seen = 0usize;
    'run: loop {
        // ---- boundary events
        let evs: Vec<BEv> = if !started {
            sc.pre.clone()
        } else if k < sc.boundaries.len() {
            sc.boundaries[k].clone()
        } else if sc.tail_every != 0 && k % sc.tail_every == 0 && !ended {
            vec![BEv::Optimize(vec![])]
        } else {
            vec![]
        };
        for ev in evs {
            match ev {
                BEv::HostAdd(v) => {
                    sh.str("add");
                    match materialise(&mut a, &v) {
                        Ok(addr) => {
                            let got = read_val(&a, addr);
                            if got != v {
                                out.violate("C19.harness.host-add-readback", format!("wrote {} read {}", v.short(), got.short()));
                                break 'run;
                            }
                            held.push((addr, v));
                            out.count("host_add", 1);
                            marks.push(a.get_data_len());
                        }
                        Err(_) => {
                            out.count("f1_store_full_fired", 1);
                            out.probe("store-full-in-host-add");
                            break 'run;
                        }
                    }
                }
                BEv::HostAddForward(items) => {
                    sh.str("add-forward");
                    let r: Result<usize, garnish_lang_simple_data::DataError> = (|| {
                        let mut l = a.start_list(items.len())?;
                        for it in &items {
                            let addr = materialise(&mut a, it)?;
                            l = a.add_to_list(l, addr)?;
                        }
                        a.end_list(l)
                    })();
                    match r {
                        Ok(addr) => {
                            let v = Val::List(items.clone());
                            let got = read_val(&a, addr);
                            if got != v {
                                out.violate("C19.harness.host-add-readback", format!("wrote {} read {}", v.short(), got.short()));
                                break 'run;
                            }
                            held.push((addr, v));
                            out.count("host_add", 1);
                            out.probe("host-list-assembled-front-to-back");
                            marks.push(a.get_data_len());
                        }
                        Err(_) => {
                            out.count("f1_store_full_fired", 1);
                            break 'run;
                        }
                    }
                }
                BEv::SetCurrent(v) => {
                    if !started || ended || a.get_current_value().is_none() || b.get_current_value().is_none() {
                        continue;
                    }
                    sh.str("set-current");
                    match (materialise(&mut a, &v), materialise(&mut b, &v)) {
                        (Ok(x), Ok(y)) => {
                            if let Some(slot) = a.get_current_value_mut() {
                                *slot = x;
                            }
                            if let Some(slot) = b.get_current_value_mut() {
                                *slot = y;
                            }
                            out.count("host_set_current_value", 1);
                            out.probe("host-rewrote-the-current-value-in-place");
                        }
                        _ => {
                            out.count("f1_store_full_fired", 1);
                            break 'run;
                        }
                    }
                }
                BEv::HostSymbol(name) => {
                    sh.str("symbol");
                    match a.parse_add_symbol(&name) {
                        Ok(addr) => {
                            let sym = symbol_value(&name);
                            if !symbols.contains(&sym) {
                                symbols.push(sym);
                            }
                            held.push((addr, Val::Sym(sym)));
                            out.count("host_symbols_registered", 1);
                            marks.push(a.get_data_len());
                            if a.data_retention_count() > 0 {
                                out.probe("symbol-registered-after-retention-point");
                            }
                            if a.symbol_name(sym).as_deref() != Some(name.as_str()) {
                                out.violate("C19.harness.symbol-readback", format!("registered {:?}, store reports {:?}", name, a.symbol_name(sym)));
                                break 'run;
                            }
                        }
                        Err(_) => {
                            out.count("f1_store_full_fired", 1);
                            break 'run;
                        }
                    }
                }
                BEv::RetainMark(i) => {
                    if marks.is_empty() {
                        continue;
                    }
                    let m = marks[i % marks.len()];
                    if m > a.data_retention_count() && m <= a.get_data_len() {
                        sh.str("retain-mark");
                        a.set_data_retention_count(m);
                        out.count("retention_point_moved", 1);
                        out.probe("retention-point-set-to-an-earlier-mark");
                    }
                }
                BEv::RetainAll => {
                    sh.str("retain");
                    a.retain_all_current_data();
                    out.count("retention_point_moved", 1);
                    if started && !ended {
                        out.probe("retention-point-moved-while-program-in-flight");
                    }
                }
                BEv::HostShare(sels) => {
                    if held.is_empty() || sels.len() < 2 {
                        continue;
                    }
                    sh.str("share");
                    let picks: Vec<(usize, Val)> = sels.iter().map(|s| held[s % held.len()].clone()).collect();
                    if picks.iter().map(|p| p.1.size()).sum::<usize>() > 400 {
                        continue;
                    }
                    let r = if picks.len() == 2 {
                        a.add_pair((picks[0].0, picks[1].0)).map(|addr| (addr, Val::pair(picks[0].1.clone(), picks[1].1.clone())))
                    } else {
                        (|| {
                            let mut l = a.start_list(picks.len())?;
                            for p in &picks {
                                l = a.add_to_list(l, p.0)?;
                            }
                            let addr = a.end_list(l)?;
                            Ok((addr, Val::List(picks.iter().map(|p| p.1.clone()).collect())))
                        })()
                    };
                    match r {
                        Ok((addr, v)) => {
                            let got = read_val(&a, addr);
                            if got != v {
                                out.violate("C19.harness.host-share-readback", format!("expected {} read {}", v.short(), got.short()));
                                break 'run;
                            }
                            held.push((addr, v));
                            out.count("host_share", 1);
                            marks.push(a.get_data_len());
                            out.probe("value-with-shared-sub-values-held");
                        }
                        Err(_) => {
                            out.count("f1_store_full_fired", 1);
                            break 'run;
                        }
                    }
                }
                BEv::CloneHeld(_) | BEv::CloneStack(_) => {
                    let (addr, expect) = match &ev {
                        BEv::CloneHeld(i) => {
                            if held.is_empty() {
                                continue;
                            }
                            held[i % held.len()].clone()
                        }
                        BEv::CloneStack(sel) => {
                            let addr = match sel {
                                None => a.get_current_value(),
                                Some(i) => {
                                    let ops = a.operands();
                                    if ops.is_empty() {
                                        None
                                    } else {
                                        Some(ops[i % ops.len()])
                                    }
                                }
                            };
                            let Some(addr) = addr else { continue };
                            let v = read_val(&a, addr);
                            if v.is_bad() {
                                continue;
                            }
                            out.probe("clone-of-value-on-a-stack");
                            (addr, v)
                        }
                        _ => unreachable!(),
                    };
                    sh.str("clone");
                    let before = snapshot(&a, &symbols, &const_addrs);
                    let r = guarded(|| a.clone_data(addr));
                    match r {
                        Err(p) => {
                            out.foreign_panic = Some(format!("clone_data: {p}"));
                            out.violate("C19.clone.panic", p);
                            break 'run;
                        }
                        Ok(Err(_)) => {
                            out.count("clone_err", 1);
                            if a.get_data_len() >= sc.knobs.data.max.saturating_sub(64) {
                                out.count("f1_store_full_fired", 1);
                            }
                            break 'run;
                        }
                        Ok(Ok(new_addr)) => {
                            clones_ok += 1;
                            let got = read_val(&a, new_addr);
                            if got != expect {
                                out.violate("C19.clone.not-identical", format!("original {} clone {}", expect.short(), got.short()));
                                break 'run;
                            }
                            let orig = read_val(&a, addr);
                            if orig != expect {
                                out.violate("C19.clone.original-changed", format!("was {} now {}", expect.short(), orig.short()));
                                break 'run;
                            }
                            let mut l1 = vec![];
                            let mut l2 = vec![];
                            read_lookups_deep(&a, addr, 0, &mut l1);
                            read_lookups_deep(&a, new_addr, 0, &mut l2);
                            if l1 != l2 {
                                out.violate("C19.clone.keyed-view", format!("original {:?} clone {:?}", l1, l2));
                                break 'run;
                            }
                            let after = snapshot(&a, &symbols, &const_addrs);
                            if let Some((inv, det)) = diff_snapshot(&before, &after) {
                                out.violate(&inv.replace("C19.O1", "C19.clone.disturbed"), det);
                                break 'run;
                            }
                            held.push((new_addr, expect));
                            if new_addr == addr {
                                out.probe("clone-returned-same-address");
                            }
                        }
                    }
                }
                BEv::Optimize(sel) => {
                    sh.str("opt");
                    sh.u64(sel.len() as u64);
                    // resolve the root selection to addresses
                    let operands = a.operands();
                    let retention = a.data_retention_count();
                    let mut roots: Vec<usize> = vec![];
                    let mut root_src: Vec<Option<usize>> = vec![];
                    for s in &sel {
                        match s {
                            RootSel::Held(i) => {
                                if !held.is_empty() {
                                    let j = i % held.len();
                                    roots.push(held[j].0);
                                    root_src.push(Some(j));
                                }
                            }
                            RootSel::Operand(i) => {
                                if !operands.is_empty() {
                                    roots.push(operands[i % operands.len()]);
                                    root_src.push(None);
                                    out.probe("root-also-on-operand-stack");
                                }
                            }
                            RootSel::CurrentValue => {
                                if let Some(v) = a.get_current_value() {
                                    roots.push(v);
                                    root_src.push(None);
                                    out.probe("root-also-current-value");
                                }
                            }
                            RootSel::Retained(i) => {
                                if retention > 0 {
                                    // only addresses that hold a readable value (not the inside of a text or list)
                                    let addr = i % retention;
                                    if !read_val(&a, addr).is_bad() {
                                        roots.push(addr);
                                        root_src.push(None);
                                        out.probe("root-in-retained-prefix");
                                    }
                                }
                            }
                        }
                    }
                    {
                        let mut sorted = roots.clone();
                        sorted.sort();
                        sorted.dedup();
                        if sorted.len() < roots.len() {
                            out.probe("duplicate-roots");
                        }
                    }
                    let root_vals: Vec<Val> = roots.iter().map(|r| read_val(&a, *r)).collect();
                    let root_lookups: Vec<Vec<(u64, Val)>> = roots
                        .iter()
                        .map(|r| {
                            let mut l = vec![];
                            read_lookups_deep(&a, *r, 0, &mut l);
                            l
                        })
                        .collect();
                    let stack_lookups_before = stack_lookups(&a);
                    let before = snapshot(&a, &symbols, &const_addrs);
                    if before.obs.over_budget() || root_vals.iter().any(|v| v.over_budget()) {
                        out.probe("value-over-read-budget");
                        break 'run;
                    }
                    let size_before = a.get_data_len();
                    let r = guarded(|| a.optimize(&roots));
                    match r {
                        Err(p) => {
                            out.foreign_panic = Some(format!("optimize: {p}"));
                            out.violate("C19.optimize.panic", p);
                            break 'run;
                        }
                        Ok(Err(e)) => {
                            let msg = format!("{:?}", e);
                            out.count("optimize_err", 1);
                            if msg.contains("exceeds max items") {
                                out.count("f1_store_full_fired", 1);
                                out.probe("store-full-inside-optimize");
                            } else if msg.contains("Clone limit") {
                                out.probe("optimize-refused-clone-limit");
                            } else {
                                // not a capacity matter: compaction's own bookkeeping gave up on a store that was built through
                                // the public interface only
                                out.count("optimize_err_other", 1);
                                out.violate("C19.optimize.refused-without-capacity-reason", crate::world::short_err(&msg));
                                break 'run;
                            }
                            // a refused compaction gives no verdict for this call and ends the run
                            break 'run;
                        }
                        Ok(Ok(mapped)) => {
                            optimizes_ok += 1;
                            out.count("optimize_ok", 1);
                            // compaction moves everything past the retained prefix: lengths noted before it mean nothing now
                            marks.clear();
                            if a.get_data_len() < size_before {
                                out.count("optimize_reclaimed_slots", (size_before - a.get_data_len()) as u64);
                            }
                            if mapped.len() != roots.len() {
                                out.violate("C19.O1.mapping-length", format!("{} roots, {} mapped", roots.len(), mapped.len()));
                                break 'run;
                            }
                            let after = snapshot(&a, &symbols, &const_addrs);
                            if let Some((inv, det)) = diff_snapshot(&before, &after) {
                                out.violate(&inv, det);
                                break 'run;
                            }
                            for (i, m) in mapped.iter().enumerate() {
                                if roots[i] < retention && *m != roots[i] {
                                    out.violate("C19.O1.retained-root-moved", format!("root {} in retained prefix ({}) mapped to {}", roots[i], retention, m));
                                    break 'run;
                                }
                                let got = guarded(|| read_val(&a, *m)).unwrap_or(Val::Bad("panic".into()));
                                if got != root_vals[i] {
                                    out.violate("C19.O1.extra-root", format!("root {} -> {}: before {} after {}", roots[i], m, root_vals[i].short(), got.short()));
                                    break 'run;
                                }
                                let mut l = vec![];
                                read_lookups_deep(&a, *m, 0, &mut l);
                                if l != root_lookups[i] {
                                    out.violate("C19.O1.extra-root-keyed-view", format!("root {} -> {}: before {:?} after {:?}", roots[i], m, root_lookups[i], l));
                                    break 'run;
                                }
                            }
                            if stack_lookups(&a) != stack_lookups_before {
                                out.violate("C19.O1.stack-keyed-view", "keyed lookups of values on the stacks changed".into());
                                break 'run;
                            }
                            // the host keeps what it rooted (at the new address) and forgets the rest
                            let mut new_held: Vec<(usize, Val)> = vec![];
                            for (i, src) in root_src.iter().enumerate() {
                                if let Some(j) = src {
                                    new_held.push((mapped[i], held[*j].1.clone()));
                                }
                            }
                            // held values inside the retained prefix survive without being rooted
                            for (addr, v) in &held {
                                if *addr < retention && !new_held.iter().any(|(a2, _)| a2 == addr) {
                                    new_held.push((*addr, v.clone()));
                                }
                            }
                            held = new_held;
                            if !ended && steps > 0 {
                                out.probe("optimize-while-program-in-flight");
                            }
                            if !a.frames().is_empty() {
                                out.probe("optimize-inside-nested-call");
                            }
                        }
                    }
                }
            }
        }
        if !started {
            started = true;
            ended = false;
            if !sc.pre.is_empty() {
                out.probe("events-before-the-run-started");
            }
            if start(&mut a, pa.entry_jump, &sc.input).is_err() {
                if optimizes_ok + clones_ok == 0 {
                    out.abstain = Some("start-failed".into());
                }
                out.count("f1_store_full_fired", 1);
                break;
            }
            start(&mut b, pb.entry_jump, &sc.input).expect("twin start");
            continue;
        }
        if ended {
            if k >= sc.boundaries.len() {
                break;
            }
            k += 1;
            continue;
        }
        if steps >= sc.max_steps {
            out.probe("step-budget-reached");
            break;
        }
        // ---- one step in both worlds
        let ia = current_instruction(&a).map(|(i, _)| i);
        let ib = current_instruction(&b).map(|(i, _)| i);
        let compacted_before = a.host().fired_compact_in_callback;
        let ra = step(&mut a);
        let rb = step(&mut b);
        if a.host().fired_compact_in_callback != compacted_before {
            // the host compacted inside a callback of this step without naming roots: it keeps only what lies in the
            // retained prefix, and the data lengths it noted earlier mean nothing any more
            let retention = a.data_retention_count();
            held.retain(|(addr, _)| *addr < retention);
            marks.clear();
            out.count("f8_compactions_inside_a_callback", 1);
            out.probe("compaction-inside-a-callback");
            if ia == Some(garnish_lang_traits::Instruction::Resolve) {
                out.count("f8_compactions_inside_a_resolve_callback", 1);
                out.probe("compaction-inside-a-resolve-callback");
            }
        }
        steps += 1;
        k += 1;
        sh.str("s");
        th.str(ra.tag());
        if let StepResult::Panic(p) = &ra {
            out.foreign_panic = Some(p.clone());
            if !matches!(rb, StepResult::Panic(_)) {
                out.violate("C19.O2.panic-only-when-compacted", p.clone());
            }
            break;
        }
        if matches!(rb, StepResult::Panic(_)) {
            out.foreign_panic = Some(format!("{:?}", rb));
            break;
        }
        if ra.is_store_full() && !rb.is_store_full() {
            // the capped world ran out of room even with compaction: an F1 firing, no verdict from here on
            out.count("f1_store_full_fired", 1);
            out.probe("store-full-inside-step");
            break;
        }
        if ia != ib {
            out.violate("C19.O2.instruction", format!("step {}: compacted world executes {:?}, twin {:?}", steps, ia, ib));
            break;
        }
        if ra.tag() != rb.tag() {
            out.violate("C19.O2.status", format!("step {} ({:?}): compacted {:?} twin {:?}", steps, ia, ra, rb));
            break;
        }
        let oa = observe(&a);
        let ob = observe(&b);
        if oa.over_budget() || ob.over_budget() {
            // values too large to read back as trees: stop observing this run here
            out.probe("value-over-read-budget");
            if optimizes_ok + clones_ok == 0 {
                out.abstain = Some("value-over-read-budget".into());
            }
            break;
        }
        th.str(&format!("{:?}", oa));
        let mut st = Fnv::new();
        st.u64(oa.cursor as u64);
        st.u64(oa.operands.len() as u64);
        st.u64(oa.values.len() as u64);
        st.u64(oa.frames.len() as u64);
        st.u64((a.get_data_len() / 32) as u64);
        out.state(st.finish());
        if oa.operands != ob.operands {
            out.violate("C19.O2.operands", format!("step {} ({:?}): compacted {} twin {}", steps, ia, short(&oa.operands), short(&ob.operands)));
            break;
        }
        if oa.values != ob.values {
            out.violate("C19.O2.values", format!("step {} ({:?}): compacted {} twin {}", steps, ia, short(&oa.values), short(&ob.values)));
            break;
        }
        if oa.frames.len() != ob.frames.len() || oa.frames.iter().zip(ob.frames.iter()).any(|(x, y)| x.1 != y.1) {
            out.violate("C19.O2.frames", format!("step {}: compacted {:?} twin {:?}", steps, oa.frames, ob.frames));
            break;
        }
        // host-call histories (structural) must be equal so far
        let la = &a.host().log;
        let lb = &b.host().log;
        if la.len() != lb.len() || la[log_seen.min(la.len())..].iter().zip(lb[log_seen.min(lb.len())..].iter()).any(|(x, y)| x.structural() != y.structural()) {
            out.violate("C19.O2.host-history", format!("step {}: compacted world made {} host calls, twin {}", steps, la.len(), lb.len()));
            break;
        }
        log_seen = la.len();
        match ra {
            StepResult::End => {
                ended = true;
                let va = crate::world::current_value(&a);
                let vb = crate::world::current_value(&b);
                if va != vb {
                    out.violate("C19.O2.result", format!("compacted {:?} twin {:?}", va, vb));
                    break;
                }
                out.probe("ran-to-completion");
                if sc.knobs.data.max != usize::MAX && b.get_data_len() > sc.knobs.data.max {
                    out.probe("finished-only-thanks-to-compaction");
                }
                // the result becomes a held value
                if let (Some(addr), Some(v)) = (a.get_current_value(), va) {
                    held.push((addr, v));
                }
            }
            StepResult::Err { .. } => {
                out.probe("both-worlds-err");
                break;
            }
            _ => {}
        }
    }
    out.count("steps", steps as u64);
    out.count("callbacks", a.host().calls as u64);
    out.count("f2_callback_fail_fired", a.host().fired_fail as u64);
    out.count("f3_callback_decline_fired", a.host().fired_decline as u64);
    out.count("f4_callback_churn_fired", a.host().fired_churn as u64);
    out.count("f8_compactions", optimizes_ok);
    out.count("clone_data_ok", clones_ok);
    if sc.knobs != Knobs::default() {
        out.count("k1_nondefault_growth_knobs", 1);
    }
    out.nontrivial = (optimizes_ok + clones_ok) > 0 && steps > 0;
    th.u64(steps as u64);
    if let Some(v) = &out.violation {
        th.str(&v.invariant);
    }
    out.trace_hash = th.finish();
    out.schedule_hash = sh.finish();
    out
}

/// keyed lookups of every list reachable from the stacks
fn stack_lookups(d: &BasicW) -> Vec<(u64, Val)> {
    guarded(|| {
        let mut l = vec![];
        for a in d.operands() {
            read_lookups_deep(d, a, 0, &mut l);
        }
        for a in d.value_stack() {
            read_lookups_deep(d, a, 0, &mut l);
        }
        l
    })
    .unwrap_or_else(|_| vec![(0, Val::Bad("panic".into()))])
}
