//! C20 — programs built into a shared data object do not disturb each other.
//! Seeded histories of builds, complete runs, abandoned runs, failed builds, host allocations and
//! (Basic) compactions into ONE data object; every tenant is compared with its solo build and run.

use crate::campaign::{drop_each, Campaign, Outcome, Tier};
use crate::gen::{gen_input, Gen, GenCfg};
use crate::host::{Answer, Host, HostScript};
use crate::rng::{Fnv, Rng};
use crate::simdata::{BasicW, Knobs, SimData, SimpleW};
use crate::val::{materialise, read_val, Val};
use crate::world::{compile, current_value, start, step, BuildOutcome, Built, StepResult};
use garnish_lang_simple_data::symbol_value;
use garnish_lang_traits::Instruction;
use serde::{Deserialize, Serialize};
use serde_json::{json, Value};

#[derive(Clone, Debug, Serialize, Deserialize, PartialEq)]
pub struct Tenant {
    pub src: String,
    pub input: Val,
}

#[derive(Clone, Debug, Serialize, Deserialize, PartialEq)]
pub enum Ev20 {
    Build(usize),
    /// a program whose build fails part-way (e.g. an unparsable numeric literal), leaving residue
    FailedBuild(String),
    Run { tenant: usize, abandon_after: Option<usize>, cleanup_full: bool, pop_result: bool },
    HostAdd(Val),
    /// a throw-away program built and run in the shared object (its result is not judged): residue of an
    /// earlier execution, typically one that stops with an error in the middle of an operation
    Scratch(String),
    /// Basic: retain_all_current_data + optimize(&[]); nothing on Simple
    Compact,
    /// SimpleGarnishData: a complete run of a tenant on a *working copy* of the shared object (everything so far
    /// marked as constant data, `clone_with_aux_without_data`): the template-plus-copy way of using that store
    RunOnCopy(usize),
}

#[derive(Clone, Debug, Serialize, Deserialize)]
pub struct Sc20 {
    pub basic: bool,
    pub knobs: Knobs,
    pub tenants: Vec<Tenant>,
    pub script: HostScript,
    pub events: Vec<Ev20>,
}

pub struct C20;

const MAX_STEPS: usize = 3000;

#[derive(Clone, Debug, PartialEq)]
struct RunResult {
    status: String,
    result: Option<Val>,
    log: Vec<String>,
    steps: usize,
}

fn run_to_end<D: SimData>(d: &mut D, entry: usize, j0: usize, input: &Val, limit: usize) -> RunResult {
    d.host_mut().reset_run();
    if let Err(e) = start(d, entry, input) {
        return RunResult { status: format!("start-err:{}", if e.contains("exceeds max items") { "store-full" } else { "other" }), result: None, log: vec![], steps: 0 };
    }
    let mut steps = 0;
    let status;
    loop {
        if steps >= limit {
            status = "budget".to_string();
            break;
        }
        let r = step(d);
        steps += 1;
        match r {
            StepResult::Running => {}
            StepResult::End => {
                status = "end".into();
                break;
            }
            StepResult::Err { ref msg, .. } => {
                // a stack-discipline failure (the program consumed more operands / inputs than it produced) is C06's
                // subject: such a program reads whatever lies beneath it, so its behaviour is not comparable
                status = if r.is_store_full() {
                    "err:store-full".into()
                } else if crate::c06::is_underflow(msg) {
                    "err:underflow".into()
                } else {
                    "err".into()
                };
                break;
            }
            StepResult::Panic(p) => {
                status = format!("panic:{p}");
                break;
            }
        }
    }
    // expression values are jump-table indices: compared relative to the program's own jump range
    let result = if status == "end" { current_value(d).map(|v| v.rebase_expr(j0)) } else { None };
    RunResult { status, result, log: d.host().log.iter().map(|c| c.rebase_expr(j0).structural()).collect(), steps }
}

/// what the host must do after a run it does not let finish: pop the frames (the runtime would
/// otherwise return into them), optionally everything else
fn cleanup<D: SimData>(d: &mut D, full: bool) {
    let mut guard = 0;
    while let Ok(Some(_)) = d.pop_frame() {
        guard += 1;
        if guard > 10_000 {
            break;
        }
    }
    if full {
        guard = 0;
        while let Ok(Some(_)) = d.pop_register() {
            guard += 1;
            if guard > 100_000 {
                break;
            }
        }
        guard = 0;
        while d.pop_value_stack().is_some() {
            guard += 1;
            if guard > 100_000 {
                break;
            }
        }
    }
}

/// constants compared structurally, with expression values taken relative to the tenant's jump range
fn rel_val(v: &Val, j0: usize, j1: usize, escapes: &mut bool) -> Val {
    match v {
        Val::Expr(n) => {
            if *n < j0 || *n >= j1 {
                *escapes = true;
                Val::Expr(usize::MAX)
            } else {
                Val::Expr(n - j0)
            }
        }
        Val::Pair(l, r) => Val::Pair(Box::new(rel_val(l, j0, j1, escapes)), Box::new(rel_val(r, j0, j1, escapes))),
        Val::List(items) => Val::List(items.iter().map(|i| rel_val(i, j0, j1, escapes)).collect()),
        other => other.clone(),
    }
}

fn is_jump_operand(i: Instruction) -> bool {
    matches!(i, Instruction::JumpIfTrue | Instruction::JumpIfFalse | Instruction::JumpTo | Instruction::And | Instruction::Or | Instruction::Reapply)
}

struct Frozen {
    instr: Vec<Option<(Instruction, Option<usize>)>>,
    jumps: Vec<Option<usize>>,
    constants: Vec<(usize, Val)>,
}

fn freeze<D: SimData>(d: &D, b: &Built) -> Frozen {
    let instr: Vec<_> = (b.instr.0..b.instr.1).map(|i| d.get_instruction(i)).collect();
    let jumps: Vec<_> = (b.jumps.0..b.jumps.1).map(|j| d.get_from_jump_table(j)).collect();
    let mut constants = vec![];
    for i in instr.iter().flatten() {
        if let (Instruction::Put | Instruction::Resolve, Some(a)) = i {
            constants.push((*a, read_val(d, *a)));
        }
    }
    Frozen { instr, jumps, constants }
}

fn frozen_diff<D: SimData>(d: &D, b: &Built, f: &Frozen) -> Option<String> {
    let now = freeze(d, b);
    if now.instr != f.instr {
        let k = now.instr.iter().zip(f.instr.iter()).position(|(x, y)| x != y).unwrap_or(0);
        return Some(format!("instruction {} was {:?} now {:?}", b.instr.0 + k, f.instr.get(k), now.instr.get(k)));
    }
    if now.jumps != f.jumps {
        let k = now.jumps.iter().zip(f.jumps.iter()).position(|(x, y)| x != y).unwrap_or(0);
        return Some(format!("jump entry {} was {:?} now {:?}", b.jumps.0 + k, f.jumps.get(k), now.jumps.get(k)));
    }
    if now.constants != f.constants {
        let k = now.constants.iter().zip(f.constants.iter()).position(|(x, y)| x != y).unwrap_or(0);
        return Some(format!("constant at {} was {} now {}", f.constants[k].0, f.constants[k].1.short(), now.constants.get(k).map(|c| c.1.short()).unwrap_or_default()));
    }
    None
}

/// N2: the shared stream equals the solo stream modulo the offsets observed at build time
fn self_contained<D: SimData>(shared: &D, sb: &Built, solo: &D, lb: &Built) -> Option<(String, String)> {
    let (i0, i1) = sb.instr;
    let (j0, j1) = sb.jumps;
    let (li0, li1) = lb.instr;
    let (lj0, lj1) = lb.jumps;
    if i1 - i0 != li1 - li0 {
        return Some(("C20.N2.instruction-count".into(), format!("shared build emitted {} instructions, solo {}", i1 - i0, li1 - li0)));
    }
    if j1 - j0 != lj1 - lj0 {
        return Some(("C20.N2.jump-count".into(), format!("shared build made {} jump entries, solo {}", j1 - j0, lj1 - lj0)));
    }
    if sb.entry_jump < j0 || sb.entry_jump >= j1.max(j0 + 1) || sb.entry_jump - j0 != lb.entry_jump - lj0 {
        return Some(("C20.N2.entry".into(), format!("entry {} with own jump range [{},{}) ; solo entry {} in [{},{})", sb.entry_jump, j0, j1, lb.entry_jump, lj0, lj1)));
    }
    for k in 0..(i1 - i0) {
        let s = shared.get_instruction(i0 + k);
        let l = solo.get_instruction(li0 + k);
        let (Some((so, sd)), Some((lo, ld))) = (s, l) else {
            return Some(("C20.N2.missing-instruction".into(), format!("position {k}")));
        };
        if so != lo {
            return Some(("C20.N2.opcode".into(), format!("position {k}: shared {:?} solo {:?}", so, lo)));
        }
        match (sd, ld) {
            (None, None) => {}
            (Some(sd), Some(ld)) => {
                if is_jump_operand(so) {
                    if sd < j0 || sd >= j1 {
                        return Some(("C20.N2.jump-operand-escapes".into(), format!("position {k} {:?} names jump entry {} outside own range [{},{})", so, sd, j0, j1)));
                    }
                    if sd - j0 != ld - lj0 {
                        return Some(("C20.N2.jump-operand".into(), format!("position {k} {:?}: shared {}-{} solo {}-{}", so, sd, j0, ld, lj0)));
                    }
                } else if matches!(so, Instruction::Put | Instruction::Resolve) {
                    let mut esc = false;
                    let sv = rel_val(&read_val(shared, sd), j0, j1, &mut esc);
                    if esc {
                        return Some(("C20.N2.expression-escapes".into(), format!("position {k}: constant {} names a jump entry outside [{},{})", read_val(shared, sd).short(), j0, j1)));
                    }
                    let mut esc2 = false;
                    let lv = rel_val(&read_val(solo, ld), lj0, lj1, &mut esc2);
                    if sv != lv {
                        return Some(("C20.N2.constant".into(), format!("position {k} {:?}: shared {} solo {}", so, sv.short(), lv.short())));
                    }
                } else if sd != ld {
                    return Some(("C20.N2.operand".into(), format!("position {k} {:?}: shared {} solo {}", so, sd, ld)));
                }
            }
            _ => return Some(("C20.N2.operand-presence".into(), format!("position {k} {:?}", so))),
        }
    }
    for k in 0..(j1 - j0) {
        let s = shared.get_from_jump_table(j0 + k);
        let l = solo.get_from_jump_table(lj0 + k);
        let (Some(s), Some(l)) = (s, l) else {
            return Some(("C20.N2.missing-jump-entry".into(), format!("entry {k}")));
        };
        if s < i0 || s >= i1 {
            return Some(("C20.N2.jump-target-escapes".into(), format!("jump entry {} -> instruction {} outside own range [{},{})", j0 + k, s, i0, i1)));
        }
        if s - i0 != l - li0 {
            return Some(("C20.N2.jump-target".into(), format!("jump entry {k}: shared {}-{} solo {}-{}", s, i0, l, li0)));
        }
    }
    None
}

fn execute_in<D: SimData>(sc: &Sc20) -> Outcome {
    let mut out = Outcome::default();
    let mut th = Fnv::new();
    let mut sh = Fnv::new();
    let capped = sc.knobs != Knobs::default();
    // solo twins
    struct Solo<D> {
        d: D,
        built: Option<Built>,
        run: Option<RunResult>,
    }
    let mut solos: Vec<Solo<D>> = vec![];
    for t in &sc.tenants {
        let mut d = D::create(Host::new(sc.script.clone()), &Knobs::default()).expect("solo world");
        d.host_mut().recording = false;
        let b = compile(&mut d, &t.src);
        d.host_mut().recording = true;
        let built = b.built().cloned();
        if let BuildOutcome::Panic(p) = &b {
            out.foreign_panic = Some(p.clone());
        }
        solos.push(Solo { d, built, run: None });
    }
    // solo runs happen on a clone so that the solo object keeps its as-built state for N2
    for (i, s) in solos.iter_mut().enumerate() {
        if let Some(b) = &s.built {
            let mut c = s.d.clone();
            s.run = Some(run_to_end(&mut c, b.entry_jump, b.jumps.0, &sc.tenants[i].input, MAX_STEPS));
        }
    }
    let mut d = match D::create(Host::new(sc.script.clone()), &sc.knobs) {
        Ok(d) => d,
        Err(_) => {
            out.abstain = Some("create-failed".into());
            return out;
        }
    };
    let mut built: Vec<Option<(Built, Frozen)>> = sc.tenants.iter().map(|_| None).collect();
    let mut comparisons = 0u64;
    let mut events: Vec<Ev20> = sc.events.clone();
    // at the end every built tenant is run once more, to completion
    let tail_start = events.len();
    if !D::IS_BASIC {
        // every tenant once on a working copy of the object as the history left it
        for t in 0..sc.tenants.len() {
            events.push(Ev20::RunOnCopy(t));
        }
    }
    for t in 0..sc.tenants.len() {
        events.push(Ev20::Run { tenant: t, abandon_after: None, cleanup_full: false, pop_result: t % 2 == 0 });
    }
    'events: for (ei, ev) in events.iter().enumerate() {
        match ev {
            Ev20::Build(t) => {
                if *t >= sc.tenants.len() || built[*t].is_some() {
                    continue;
                }
                sh.str("build");
                d.host_mut().recording = false;
                let o = compile(&mut d, &sc.tenants[*t].src);
                d.host_mut().recording = true;
                out.count("builds", 1);
                match o {
                    BuildOutcome::Ok(b) => {
                        let solo = &solos[*t];
                        match &solo.built {
                            Some(lb) => {
                                if let Some((inv, det)) = self_contained(&d, &b, &solo.d, lb) {
                                    out.violate(&inv, format!("tenant {} ({:?}): {}", t, sc.tenants[*t].src, det));
                                    break 'events;
                                }
                                comparisons += 1;
                            }
                            None => {
                                out.violate("C20.N3.build-status", format!("tenant {} builds in the shared object but not alone", t));
                                break 'events;
                            }
                        }
                        if built.iter().any(|x| x.is_some()) {
                            out.probe("build-after-another-tenant");
                        }
                        let f = freeze(&d, &b);
                        built[*t] = Some((b, f));
                    }
                    BuildOutcome::BuildErr { msg, .. } => {
                        if msg.contains("exceeds max items") || msg.contains("ExceededMaxItems") {
                            out.count("f1_store_full_fired", 1);
                            out.probe("store-full-during-build");
                        } else if solos[*t].built.is_some() {
                            out.violate("C20.N3.build-status", format!("tenant {} builds alone but fails in the shared object: {}", t, msg));
                            break 'events;
                        }
                        out.count("f7_failed_build_residue", 1);
                    }
                    BuildOutcome::Panic(p) => {
                        out.foreign_panic = Some(p);
                        out.abstain = Some("build-panic".into());
                        break 'events;
                    }
                    _ => {
                        // lex/parse error: nothing reached the data object
                    }
                }
            }
            Ev20::FailedBuild(src) => {
                sh.str("failed-build");
                d.host_mut().recording = false;
                let o = compile(&mut d, src);
                d.host_mut().recording = true;
                match o {
                    BuildOutcome::BuildErr { instr, jumps, .. } => {
                        out.count("f7_failed_build_residue", 1);
                        if instr.1 > instr.0 || jumps.1 > jumps.0 {
                            out.probe("failed-build-left-instructions-or-jumps");
                        }
                    }
                    BuildOutcome::Panic(p) => {
                        out.foreign_panic = Some(p);
                        out.abstain = Some("build-panic".into());
                        break 'events;
                    }
                    _ => {}
                }
            }
            Ev20::Scratch(src) => {
                sh.str("scratch");
                d.host_mut().recording = false;
                let o = compile(&mut d, src);
                if let BuildOutcome::Ok(b) = o {
                    let r = run_to_end(&mut d, b.entry_jump, b.jumps.0, &Val::Unit, 400);
                    out.count("scratch_runs", 1);
                    if r.status.starts_with("err") {
                        out.probe("scratch-run-stopped-with-error");
                    }
                    if let Some(p) = r.status.strip_prefix("panic:") {
                        out.foreign_panic = Some(p.to_string());
                    }
                    cleanup(&mut d, true);
                }
                d.host_mut().recording = true;
            }
            Ev20::HostAdd(v) => {
                sh.str("add");
                if materialise(&mut d, v).is_err() {
                    out.count("f1_store_full_fired", 1);
                }
                out.count("host_add", 1);
            }
            Ev20::Compact => {
                sh.str("compact");
                if D::IS_BASIC {
                    if !compact(&mut d) {
                        out.count("optimize_err", 1);
                        break 'events;
                    }
                    out.count("f8_compactions", 1);
                }
            }
            Ev20::RunOnCopy(tenant) => {
                let Some(Some((b, _))) = built.get(*tenant) else { continue };
                let b = b.clone();
                let Some(copy) = d.working_copy() else { continue };
                let Ok(mut copy) = copy else {
                    out.probe("working-copy-refused");
                    continue;
                };
                sh.str("run-on-copy");
                out.probe("tenant-run-on-a-working-copy");
                let r = run_to_end(&mut copy, b.entry_jump, b.jumps.0, &sc.tenants[*tenant].input, MAX_STEPS);
                out.count("steps", r.steps as u64);
                th.str(&r.status);
                th.str(&format!("{:?}", r.result));
                if let Some(p) = r.status.strip_prefix("panic:") {
                    out.foreign_panic = Some(p.to_string());
                }
                let solo_run = solos[*tenant].run.clone().expect("solo run");
                if solo_run.status == "err:underflow" || solo_run.status == "budget" || r.status == "budget" {
                    continue;
                }
                comparisons += 1;
                if r.status != solo_run.status && !(r.status.starts_with("panic") && solo_run.status.starts_with("panic")) {
                    out.violate("C20.N3.copy-status", format!("tenant {} ({:?}) on a working copy: {} solo {}", tenant, sc.tenants[*tenant].src, r.status, solo_run.status));
                    break 'events;
                }
                if r.result != solo_run.result {
                    out.violate(
                        "C20.N3.copy-result",
                        format!("tenant {} ({:?}) on a working copy: {:?} solo {:?}", tenant, sc.tenants[*tenant].src, r.result.as_ref().map(|v| v.short()), solo_run.result.as_ref().map(|v| v.short())),
                    );
                    break 'events;
                }
                if r.log != solo_run.log {
                    out.violate("C20.N3.copy-host-history", format!("tenant {} ({:?}) on a working copy: {:?} solo {:?}", tenant, sc.tenants[*tenant].src, r.log, solo_run.log));
                    break 'events;
                }
            }
            Ev20::Run { tenant, abandon_after, cleanup_full, pop_result } => {
                let Some(Some((b, _))) = built.get(*tenant) else { continue };
                let b = b.clone();
                sh.str("run");
                sh.u64(abandon_after.map(|x| x as u64 + 1).unwrap_or(0));
                let limit = abandon_after.unwrap_or(MAX_STEPS);
                let r = run_to_end(&mut d, b.entry_jump, b.jumps.0, &sc.tenants[*tenant].input, limit);
                out.count("steps", r.steps as u64);
                out.count("callbacks", d.host().calls as u64);
                th.str(&r.status);
                th.str(&format!("{:?}", r.result));
                if let Some(p) = r.status.strip_prefix("panic:") {
                    out.foreign_panic = Some(p.to_string());
                }
                let solo_run = solos[*tenant].run.clone().expect("solo run");
                let abandoned = abandon_after.is_some() && r.status == "budget";
                if abandoned {
                    out.count("f6_abandoned_runs", 1);
                    out.probe(if *cleanup_full { "abandoned-run-full-cleanup" } else { "abandoned-run-residue-left" });
                    // the prefix of the history must still be what the solo run did
                    let n = r.log.len().min(solo_run.log.len());
                    if solo_run.status != "budget" && r.log[..n] != solo_run.log[..n] {
                        out.violate("C20.N3.host-history-prefix", format!("tenant {} ({:?}): shared {:?} solo {:?}", tenant, sc.tenants[*tenant].src, &r.log[..n], &solo_run.log[..n]));
                        break 'events;
                    }
                    cleanup(&mut d, *cleanup_full);
                } else if r.status.contains("store-full") && capped {
                    out.count("f1_store_full_fired", 1);
                    out.probe("store-full-during-run");
                    cleanup(&mut d, true);
                } else if solo_run.status == "err:underflow" {
                    // alone, the tenant runs out of operands (an unbalanced program, e.g. one without any token): in a
                    // shared object it may find someone's leftovers instead. No behavioural verdict; N1 / N2 still apply
                    out.probe("solo-run-underflows");
                    cleanup(&mut d, true);
                } else if solo_run.status == "budget" || r.status == "budget" {
                    out.probe("solo-run-over-budget");
                    cleanup(&mut d, true);
                } else {
                    comparisons += 1;
                    if ei >= tail_start {
                        out.probe("final-run-of-every-tenant");
                    }
                    let same_status = r.status == solo_run.status || (r.status.starts_with("panic") && solo_run.status.starts_with("panic"));
                    if !same_status {
                        out.violate("C20.N3.status", format!("tenant {} ({:?}): shared {} solo {}", tenant, sc.tenants[*tenant].src, r.status, solo_run.status));
                        break 'events;
                    }
                    if r.status == "end" {
                        if r.result.as_ref().map(|v| v.over_budget()).unwrap_or(false) {
                            out.probe("value-over-read-budget");
                        } else if r.result != solo_run.result {
                            out.violate("C20.N3.result", format!("tenant {} ({:?}): shared {:?} solo {:?}", tenant, sc.tenants[*tenant].src, r.result.as_ref().map(|v| v.short()), solo_run.result.as_ref().map(|v| v.short())));
                            break 'events;
                        }
                        if r.steps != solo_run.steps {
                            out.violate("C20.N3.steps", format!("tenant {} ({:?}): shared {} steps, solo {}", tenant, sc.tenants[*tenant].src, r.steps, solo_run.steps));
                            break 'events;
                        }
                    }
                    if r.log != solo_run.log {
                        out.violate("C20.N3.host-history", format!("tenant {} ({:?}): shared {:?} solo {:?}", tenant, sc.tenants[*tenant].src, r.log, solo_run.log));
                        break 'events;
                    }
                    if r.status != "end" {
                        // the run failed the same way in both worlds; the host cleans up after an error
                        cleanup(&mut d, true);
                    } else if *pop_result {
                        d.pop_value_stack();
                    } else {
                        out.probe("result-left-on-value-stack");
                    }
                }
            }
        }
        // N1: everything built earlier is still what it was when its build returned
        for (t, slot) in built.iter().enumerate() {
            if let Some((b, f)) = slot {
                if let Some(det) = frozen_diff(&d, b, f) {
                    out.violate("C20.N1.frozen-past", format!("after event {} ({:?}) tenant {} changed: {}", ei, short_ev(ev), t, det));
                    break 'events;
                }
            }
        }
        let mut st = Fnv::new();
        st.u64(d.get_instruction_len() as u64);
        st.u64(d.get_jump_table_len() as u64);
        st.u64((d.get_data_len() / 16) as u64);
        st.u64(d.operands().len() as u64);
        st.u64(d.value_stack().len() as u64);
        out.state(st.finish());
    }
    out.count("solo_vs_shared_comparisons", comparisons);
    out.nontrivial = comparisons > 0 && built.iter().filter(|b| b.is_some()).count() >= 2;
    if comparisons == 0 && out.violation.is_none() && out.abstain.is_none() {
        out.abstain = Some("nothing-compared".into());
    }
    if let Some(v) = &out.violation {
        th.str(&v.invariant);
    }
    out.trace_hash = th.finish();
    out.schedule_hash = sh.finish();
    out
}

fn short_ev(e: &Ev20) -> String {
    let s = format!("{:?}", e);
    if s.len() > 80 {
        format!("{}…", s.chars().take(80).collect::<String>())
    } else {
        s
    }
}

fn compact<D: SimData>(d: &mut D) -> bool {
    d.retain_and_optimize()
}

fn gen_tenant(rng: &mut Rng, keys: &mut Vec<String>) -> Tenant {
    let budget = rng.range(2, 30);
    let mut cfg = if rng.chance(1, 2) { GenCfg::full(budget) } else { GenCfg::core(budget) };
    // casts to text / symbol print jump-table indices and consult the shared symbol-name table, and
    // range → list casts size the list from addresses: their results legitimately (or, for the last,
    // through an unrelated defect) depend on what else lives in the object, so they are kept out — except
    // for one sound form (`render_own`): a symbol literal of the tenant's own source rendered as text
    cfg.w_cast = 0;
    *keys = cfg.keys.clone();
    let mut g = Gen::new(rng, cfg);
    g.empty_nested = true;
    g.render_own = true;
    if g.rng.chance(1, 6) {
        // a tenant that is a reapply loop at the top level: its jump back must land on its own entry
        let (p, input) = g.toplevel_loop(budget.max(8));
        let src = g.print(&p);
        return Tenant { src, input };
    }
    if g.rng.chance(1, 40) {
        // a tenant without any instruction of its own: no tokens, only blanks, or only an annotation
        let src = g.rng.pick(&["", "  ", "@@ nothing here", "@note"]).to_string();
        return Tenant { src, input: Val::Unit };
    }
    let p = g.program();
    let src = g.print(&p);
    let input = gen_input(rng, keys);
    Tenant { src, input }
}

impl Campaign for C20 {
    type Scenario = Sc20;
    fn prop(&self) -> &'static str {
        "C20"
    }
    fn id(&self) -> u64 {
        20
    }
    fn runs(&self, tier: Tier) -> u64 {
        match tier {
            Tier::Quick => 100_000,
            Tier::Thorough => 30_000_000,
        }
    }

    fn generate(&self, rng: &mut Rng, _tier: Tier, _index: u64) -> Sc20 {
        let basic = rng.chance(1, 2);
        let mut knobs = Knobs::default();
        if basic && rng.chance(1, 3) {
            knobs = crate::c19::random_knobs(rng);
        }
        if basic && rng.chance(1, 6) {
            // F1 on one of the three blocks a build writes to
            match rng.below(3) {
                0 => knobs.instr.max = rng.range(10, 80).max(knobs.instr.init),
                1 => knobs.jump.max = rng.range(4, 30).max(knobs.jump.init),
                _ => knobs.data.max = rng.range(40, 400).max(knobs.data.init),
            }
        }
        let n = rng.range(2, 5);
        let mut keys = vec![];
        let tenants: Vec<Tenant> = (0..n).map(|_| gen_tenant(rng, &mut keys)).collect();
        let mut script = HostScript::default();
        script.resolve_default = Some(if rng.chance(1, 5) { Answer::Decline } else { Answer::Unique });
        for name in ["f1", "f2"] {
            script.resolve.insert(symbol_value(name), Answer::Decline);
        }
        script.resolve.insert(symbol_value("x1"), Answer::Provide(Val::External(rng.below(3))));
        script.apply_default = Some(if rng.chance(1, 2) { Answer::Unique } else { Answer::Decline });
        script.defer_default = Some(if rng.chance(1, 4) { Answer::Unique } else { Answer::Decline });
        // history: builds in a random order, interleaved with the other events
        let mut order: Vec<usize> = (0..n).collect();
        rng.shuffle(&mut order);
        let mut events = vec![];
        let mut built_so_far: Vec<usize> = vec![];
        for t in order {
            let extra = rng.below(4);
            for _ in 0..extra {
                match rng.below(10) {
                    0 | 1 | 2 if !built_so_far.is_empty() => {
                        let tenant = *rng.pick(&built_so_far);
                        events.push(Ev20::Run { tenant, abandon_after: None, cleanup_full: false, pop_result: rng.chance(1, 2) });
                    }
                    3 | 4 | 5 if !built_so_far.is_empty() => {
                        let tenant = *rng.pick(&built_so_far);
                        events.push(Ev20::Run { tenant, abandon_after: Some(rng.range(0, 12)), cleanup_full: rng.chance(1, 3), pop_result: false });
                    }
                    6 => events.push(Ev20::FailedBuild(
                        rng.pick(&["1 + 5abc", "{ 7 } <~ (3 ?> 5abc |> 2)", "(t1 && 9zz) || 4", ":ka = { 2 + 2 } 5abc"]).to_string(),
                    )),
                    7 if !basic && !built_so_far.is_empty() && rng.chance(1, 2) => {
                        let tenant = *rng.pick(&built_so_far);
                        events.push(Ev20::RunOnCopy(tenant));
                    }
                    7 => events.push(Ev20::HostAdd(crate::c19::random_value(rng, 2))),
                    9 => events.push(Ev20::Scratch(
                        rng.pick(&[
                            "(\"abcdef\" <~ (2..9)) ~# \"\"",
                            "(7 = (() .. $?)) ~# \"\"",
                            "(1 2 (\"ab\" <~ (1..7))) ~# :s",
                            "((1 2 3) <~ (1..9)) ~# (,)",
                            "(:ka = 5, 6, (3 4)).kb",
                            "{ $ + 1 } <~ ((1 <> 2) <~ (0..5)) ~# 'x'",
                            "12345 ~# \"\"",
                            "{ { $.9 } <~ (1 2) } <~ 3",
                        ])
                        .to_string(),
                    )),
                    8 if basic => events.push(Ev20::Compact),
                    _ => {}
                }
            }
            events.push(Ev20::Build(t));
            built_so_far.push(t);
        }
        Sc20 { basic, knobs, tenants, script, events }
    }

    fn execute(&self, sc: &Sc20) -> Outcome {
        if sc.basic {
            execute_in::<BasicW>(sc)
        } else {
            execute_in::<SimpleW>(sc)
        }
    }

    fn shrink(&self, sc: &Sc20) -> Vec<Sc20> {
        let mut out = vec![];
        for ev in drop_each(&sc.events) {
            let mut c = sc.clone();
            c.events = ev;
            out.push(c);
        }
        // drop a tenant (renumbering events)
        if sc.tenants.len() > 1 {
            for i in 0..sc.tenants.len() {
                let mut c = sc.clone();
                c.tenants.remove(i);
                c.events = sc
                    .events
                    .iter()
                    .filter_map(|e| match e {
                        Ev20::Build(t) if *t == i => None,
                        Ev20::Build(t) => Some(Ev20::Build(if *t > i { t - 1 } else { *t })),
                        Ev20::Run { tenant, .. } if *tenant == i => None,
                        Ev20::Run { tenant, abandon_after, cleanup_full, pop_result } => {
                            Some(Ev20::Run { tenant: if *tenant > i { tenant - 1 } else { *tenant }, abandon_after: *abandon_after, cleanup_full: *cleanup_full, pop_result: *pop_result })
                        }
                        other => Some(other.clone()),
                    })
                    .collect();
                out.push(c);
            }
        }
        if sc.knobs != Knobs::default() {
            let mut c = sc.clone();
            c.knobs = Knobs::default();
            out.push(c);
        }
        for i in 0..sc.tenants.len() {
            if sc.tenants[i].input != Val::Unit {
                let mut c = sc.clone();
                c.tenants[i].input = Val::Unit;
                out.push(c);
            }
            for cand in crate::c06::shrink_source(&sc.tenants[i].src).into_iter().take(30) {
                let mut c = sc.clone();
                c.tenants[i].src = cand;
                out.push(c);
            }
            for simpler in ["5", "t1", "7 + 1"] {
                if sc.tenants[i].src.len() > simpler.len() + 2 {
                    let mut c = sc.clone();
                    c.tenants[i].src = simpler.to_string();
                    out.push(c);
                }
            }
        }
        out
    }

    fn seeded(&self) -> Vec<Sc20> {
        let mk = |basic: bool, srcs: &[&str]| Sc20 {
            basic,
            knobs: Knobs::default(),
            tenants: srcs.iter().map(|s| Tenant { src: s.to_string(), input: Val::Unit }).collect(),
            script: HostScript::default(),
            events: (0..srcs.len()).map(Ev20::Build).collect(),
        };
        vec![
            // the empty program between two others (D3), and a tenant whose root emits nothing (D4)
            mk(false, &["5", "", "7"]),
            mk(true, &["5", "", "7"]),
            mk(false, &["5", "( )", "7"]),
            mk(true, &["5", "( )", "7"]),
            // SimpleGarnishData files a list's lookup table by the *addresses* of its items: which of two equal keys
            // wins, and whether a lookup trips over a plain item first, depends on what was built before
            mk(false, &["5", "(:a = 1, :a = 2).a"]),
            mk(false, &["5 + 6", "(:a = 1, :a = 2).a"]),
            mk(false, &["5", "(7, :a = 1).a"]),
            mk(false, &["5 + 6", "(7, :a = 1).a"]),
            mk(false, &["5 + 6 + 7", "(7, 8, :a = 1).a"]),
            // D27 (fixed): two equal values left behind by earlier executions, then a tenant built and run on a working copy
            Sc20 {
                basic: false,
                knobs: Knobs::default(),
                tenants: vec![Tenant { src: "5".into(), input: Val::Unit }, Tenant { src: "(1, 1) (1, 1)".into(), input: Val::Unit }],
                script: HostScript::default(),
                events: vec![Ev20::Build(1), Ev20::Run { tenant: 1, abandon_after: None, cleanup_full: false, pop_result: true }, Ev20::Run { tenant: 1, abandon_after: None, cleanup_full: false, pop_result: true }, Ev20::Build(0), Ev20::RunOnCopy(0), Ev20::RunOnCopy(1)],
            },
            // the repository's own 'jumping_wrong_index' script as a later tenant
            mk(true, &["10 + 5", ":first_item = { $? ?> 987 |> 100 }\n:circle1 = { 10 + 5 }\n\n($.first_item~~)"]),
        ]
    }

    fn haystack(&self, sc: &Sc20) -> String {
        sc.tenants.iter().map(|t| format!("<<{}>>", t.src)).collect::<Vec<_>>().join("")
    }

    fn rule(&self) -> String {
        "one run = 2..5 generated programs (tenants) built in a random order into one data object (SimpleGarnishData or BasicGarnishData, chosen per run), interleaved with complete runs, runs abandoned after 0..12 steps with frames popped and the rest left or cleaned, failed builds leaving residue, scratch programs (throw-away programs, mostly casts / lookups that stop with an error half-way: residue of earlier executions), host allocations and (Basic) retain+optimize; tenants include top-level reapply loops and body-less nested expressions; at the end every built tenant is run to completion. Each tenant is compared with its solo build (stream modulo offsets) and solo run (result, host-call history, step count, status), and every earlier tenant's instructions, jump entries and constants are re-read after every event. distinct = distinct scenario hash; non-trivial = at least two tenants built and at least one solo-vs-shared comparison made".to_string()
    }

    fn components(&self) -> Value {
        json!({"real": ["lexer", "parser", "builder", "runtime", "SimpleGarnishData", "BasicGarnishData (incl. optimize between tenants)"], "stub": ["host callbacks (scripted)", "solo twin = same real code in a fresh object"]})
    }

    fn assumptions(&self) -> Vec<String> {
        vec![
            "after a run it does not let finish the host pops the frame chain (the runtime would otherwise return into stale frames)".into(),
            "a store-full error under a configured capacity limit is a fault firing, not a verdict".into(),
            "error messages are not compared, only Ok/Err status".into(),
        ]
    }
}
