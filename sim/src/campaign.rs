//! Campaign framework: seeded generation of concrete scenarios, execution, minimisation, replay,
//! sharded child processes (crash/hang isolation), known-findings matching, evidence.

use crate::rng::{run_seed, Fnv, Rng};
use serde::de::DeserializeOwned;
use serde::{Deserialize, Serialize};
use serde_json::{json, Value};
use std::collections::{BTreeMap, BTreeSet};
use std::io::{BufRead, BufReader, Write};
use std::process::{Command, Stdio};
use std::sync::mpsc;
use std::time::{Duration, Instant};

#[derive(Clone, Copy, Debug, PartialEq, Eq)]
pub enum Tier {
    Quick,
    Thorough,
}

impl Tier {
    pub fn name(&self) -> &'static str {
        match self {
            Tier::Quick => "quick",
            Tier::Thorough => "thorough",
        }
    }
    pub fn parse(s: &str) -> Tier {
        if s == "thorough" {
            Tier::Thorough
        } else {
            Tier::Quick
        }
    }
}

#[derive(Clone, Debug, Serialize, Deserialize)]
pub struct Violation {
    /// invariant id, e.g. "C19.O1.root-changed"
    pub invariant: String,
    pub detail: String,
}

#[derive(Clone, Debug, Default)]
pub struct Outcome {
    pub violation: Option<Violation>,
    /// no verdict for this run, with the reason
    pub abstain: Option<String>,
    /// counters: fault kinds fired, steps, callbacks, …  (summed over runs)
    pub stats: BTreeMap<String, u64>,
    /// rare-condition probes hit in this run
    pub probes: BTreeSet<String>,
    /// fingerprint of the event-kind + fault-placement sequence
    pub schedule_hash: u64,
    /// did the run execute at least one fault, callback or compaction (or the campaign's own rule)
    pub nontrivial: bool,
    /// fingerprints of machine states visited (bounded per run)
    pub states: Vec<u64>,
    /// hash of everything observed, for determinism checks
    pub trace_hash: u64,
    /// panics seen by a campaign that does not own them (saved for information only)
    pub foreign_panic: Option<String>,
}

impl Outcome {
    pub fn count(&mut self, key: &str, n: u64) {
        if n > 0 {
            *self.stats.entry(key.to_string()).or_insert(0) += n;
        }
    }
    pub fn probe(&mut self, key: &str) {
        self.probes.insert(key.to_string());
    }
    pub fn violate(&mut self, invariant: &str, detail: String) {
        if self.violation.is_none() {
            self.violation = Some(Violation { invariant: invariant.to_string(), detail });
        }
    }
    pub fn state(&mut self, h: u64) {
        if self.states.len() < 256 {
            self.states.push(h);
        }
    }
}

/// per-shard cap of the distinct-counting sets
const SET_CAP: usize = 250_000;

pub trait Campaign: Sync {
    type Scenario: Serialize + DeserializeOwned + Clone;
    fn prop(&self) -> &'static str;
    fn id(&self) -> u64;
    fn level(&self) -> &'static str {
        "exploration"
    }
    fn runs(&self, tier: Tier) -> u64;
    /// runs come in groups of this many consecutive indices that share one base seed (the rng passed to
    /// `generate` is seeded from index / group); `index % group` selects the variant (fault placement…)
    fn group(&self, _tier: Tier) -> u64 {
        1
    }
    fn generate(&self, rng: &mut Rng, tier: Tier, index: u64) -> Self::Scenario;
    fn execute(&self, sc: &Self::Scenario) -> Outcome;
    /// smaller variants of a scenario (tried in order; first that still violates the same invariant wins)
    fn shrink(&self, _sc: &Self::Scenario) -> Vec<Self::Scenario> {
        vec![]
    }
    /// explicit scenarios run before the seeded ones (known-defect shapes, regression seeds)
    fn seeded(&self) -> Vec<Self::Scenario> {
        vec![]
    }
    /// explicit scenarios that may abort the process or never return (unbounded work inside one step):
    /// each runs in a throw-away child of its own under a tight memory limit and a deadline, so that it
    /// cannot take a shard (and the runs after it) down. A child that dies or overruns is reported as
    /// `<prop>.abort.died` / `<prop>.abort.stalled` with that scenario.
    fn isolated(&self) -> Vec<Self::Scenario> {
        vec![]
    }
    /// whether explicit scenarios are minimised too (they usually are minimal already)
    fn minimise_seeded(&self) -> bool {
        false
    }
    /// text searched by known-findings matchers (program sources etc.)
    fn haystack(&self, sc: &Self::Scenario) -> String {
        serde_json::to_string(sc).unwrap_or_default()
    }
    /// how runs are generated and what makes one distinct / non-trivial (for the evidence file)
    fn rule(&self) -> String;
    fn components(&self) -> Value;
    fn assumptions(&self) -> Vec<String>;
    /// minimum share (percent) of runs that must reach a verdict, else the check is vacuous (exit 2)
    fn min_verdict_pct(&self) -> u64 {
        50
    }
}

#[derive(Clone, Debug, Deserialize)]
pub struct KnownFinding {
    pub property: String,
    pub status: String,
    pub id: String,
    #[serde(default)]
    pub invariant_prefix: String,
    /// every string must occur in the scenario's haystack or the violation detail
    #[serde(default)]
    pub contains_all: Vec<String>,
    #[serde(default)]
    pub what: String,
    #[serde(default)]
    pub commit: String,
}

pub fn load_known_findings(verif_root: &str) -> Vec<KnownFinding> {
    let p = format!("{verif_root}/known_findings.json");
    match std::fs::read_to_string(&p) {
        Ok(s) => serde_json::from_str::<Vec<KnownFinding>>(&s).unwrap_or_else(|e| {
            eprintln!("HARNESS-ERROR: cannot parse {p}: {e}");
            std::process::exit(2);
        }),
        Err(_) => vec![],
    }
}

pub fn match_known<'a>(known: &'a [KnownFinding], prop: &str, v: &Violation, haystack: &str) -> Option<&'a KnownFinding> {
    known.iter().find(|k| {
        k.property == prop
            && k.status == "open"
            && v.invariant.starts_with(&k.invariant_prefix)
            && k.contains_all.iter().all(|s| haystack.contains(s.as_str()) || v.detail.contains(s.as_str()))
    })
}

/// child side of an isolated scenario: prints `V <json>` or `OK`
pub fn run_isolated<C: Campaign>(c: &C, index: usize) {
    let list = c.isolated();
    let Some(sc) = list.get(index) else {
        println!("OK");
        return;
    };
    let o = c.execute(sc);
    match o.violation {
        Some(v) => println!("V {}", json!({"invariant": v.invariant, "detail": v.detail, "trace_hash": o.trace_hash})),
        None => println!("OK"),
    }
}

/// parent side: all isolated scenarios at once, each in its own limited child; returns violation records
fn drive_isolated<C: Campaign>(c: &C, deadline: Duration) -> (usize, Vec<Value>) {
    let list = c.isolated();
    if list.is_empty() {
        return (0, vec![]);
    }
    let exe = std::env::current_exe().expect("current_exe");
    let mut children = vec![];
    for i in 0..list.len() {
        let cmd = format!("ulimit -v 1500000; exec '{}' isolated {} {}", exe.display(), c.prop(), i);
        let child = Command::new("sh").arg("-c").arg(cmd).env("RUST_BACKTRACE", "0").env("RUST_LIB_BACKTRACE", "0").stdout(Stdio::piped()).stderr(Stdio::null()).spawn();
        children.push(child.ok());
    }
    let t0 = Instant::now();
    let mut out = vec![];
    for (i, ch) in children.into_iter().enumerate() {
        let Some(mut ch) = ch else { continue };
        let mut why: Option<&str> = None;
        loop {
            match ch.try_wait() {
                Ok(Some(st)) => {
                    if !st.success() {
                        why = Some("died");
                    }
                    break;
                }
                Ok(None) => {
                    if t0.elapsed() > deadline {
                        let _ = ch.kill();
                        let _ = ch.wait();
                        why = Some("stalled");
                        break;
                    }
                    std::thread::sleep(Duration::from_millis(20));
                }
                Err(_) => {
                    why = Some("died");
                    break;
                }
            }
        }
        let sc_json = serde_json::to_value(&list[i]).unwrap_or(Value::Null);
        let hay = c.haystack(&list[i]);
        match why {
            Some(w) => out.push(json!({"run": -1_000_000 - i as i64, "invariant": format!("{}.abort.{}", c.prop(), w), "detail": format!("the process executing this scenario {} (address-space limit 1.5 GB, deadline {} s)", w, deadline.as_secs()),
                "tried": 0, "trace_hash": 0, "haystack": hay, "scenario": sc_json})),
            None => {
                let mut s = String::new();
                use std::io::Read;
                if let Some(mut so) = ch.stdout.take() {
                    let _ = so.read_to_string(&mut s);
                }
                if let Some(rest) = s.lines().find_map(|l| l.strip_prefix("V ")) {
                    if let Ok(v) = serde_json::from_str::<Value>(rest) {
                        out.push(json!({"run": -1_000_000 - i as i64, "invariant": v["invariant"], "detail": v["detail"], "tried": 0, "trace_hash": v["trace_hash"], "haystack": hay, "scenario": sc_json}));
                    }
                }
            }
        }
    }
    (list.len(), out)
}

/// Greedy minimisation: keep taking the first shrink candidate that still violates the same invariant.
pub fn minimise<C: Campaign>(c: &C, sc: &C::Scenario, invariant: &str, budget_runs: usize, budget: Duration) -> (C::Scenario, usize) {
    let t0 = Instant::now();
    let mut cur = sc.clone();
    let mut tried = 0usize;
    'outer: loop {
        for cand in c.shrink(&cur) {
            if tried >= budget_runs || t0.elapsed() > budget {
                break 'outer;
            }
            tried += 1;
            let out = c.execute(&cand);
            if out.violation.as_ref().map(|v| v.invariant == invariant).unwrap_or(false) {
                cur = cand;
                continue 'outer;
            }
        }
        break;
    }
    (cur, tried)
}

#[derive(Serialize, Deserialize)]
pub struct ReplayFile {
    pub property: String,
    pub invariant: String,
    pub detail: String,
    pub seed: u64,
    pub run_index: i64,
    pub trace_hash: u64,
    pub minimised_in_runs: usize,
    pub scenario: Value,
}

// ---------------------------------------------------------------------------------------------
// worker (child process): runs a shard, prints one line per event on stdout

pub fn worker<C: Campaign>(c: &C, tier: Tier, master: u64, shard: u64, shards: u64, total: u64, hashes_only: bool) {
    let stdout = std::io::stdout();
    let mut out = stdout.lock();
    let seeded = c.seeded();
    let nseeded = seeded.len() as u64;
    let mut agg_stats: BTreeMap<String, u64> = BTreeMap::new();
    let mut probes: BTreeMap<String, u64> = BTreeMap::new();
    let mut sched: BTreeSet<u64> = BTreeSet::new();
    let mut states: BTreeSet<u64> = BTreeSet::new();
    let mut nontrivial: BTreeSet<u64> = BTreeSet::new();
    let mut abstains: BTreeMap<String, u64> = BTreeMap::new();
    let mut verdicts = 0u64;
    let mut runs = 0u64;
    let mut samples: Vec<Value> = vec![];
    let mut trace_hashes: Vec<(i64, u64)> = vec![];
    let mut minimised_per_invariant: BTreeMap<String, u32> = BTreeMap::new();
    let mut capped = false;
    // run indices: negative = explicit seeded scenarios, 0.. = generated
    let mut idx: i64 = -(nseeded as i64);
    while idx < total as i64 {
        let slot = (idx + nseeded as i64) as u64;
        if slot % shards != shard {
            idx += 1;
            continue;
        }
        let _ = writeln!(out, "S {}", idx);
        let _ = out.flush();
        let sc = if idx < 0 {
            seeded[(idx + nseeded as i64) as usize].clone()
        } else {
            let mut rng = Rng::new(run_seed(master, c.id(), idx as u64 / c.group(tier).max(1)));
            c.generate(&mut rng, tier, idx as u64)
        };
        let t_run = Instant::now();
        let o = c.execute(&sc);
        let ms = t_run.elapsed().as_millis();
        if ms > 1500 {
            let _ = writeln!(out, "W {} {}", idx, ms);
        }
        runs += 1;
        trace_hashes.push((idx, o.trace_hash));
        for (k, v) in &o.stats {
            *agg_stats.entry(k.clone()).or_insert(0) += v;
        }
        for p in &o.probes {
            *probes.entry(p.clone()).or_insert(0) += 1;
        }
        // the distinct-counting sets are capped per shard (thorough runs make tens of millions of runs): a
        // capped count is a lower bound, and the evidence says so
        if sched.len() < SET_CAP {
            sched.insert(o.schedule_hash);
        } else {
            capped = true;
        }
        for s in &o.states {
            if states.len() < SET_CAP {
                states.insert(*s);
            } else {
                capped = true;
            }
        }
        let sc_json = serde_json::to_value(&sc).unwrap_or(Value::Null);
        if o.nontrivial {
            if nontrivial.len() < SET_CAP {
                let mut h = Fnv::new();
                h.str(&sc_json.to_string());
                nontrivial.insert(h.finish());
            } else {
                capped = true;
            }
        }
        if let Some(p) = &o.foreign_panic {
            let _ = writeln!(out, "P {}", json!({"run": idx, "panic": p, "scenario": sc_json}));
        }
        match (&o.violation, &o.abstain) {
            (Some(v), _) => {
                let done = minimised_per_invariant.entry(v.invariant.clone()).or_insert(0);
                *done += 1;
                if hashes_only || *done > 2 || (idx < 0 && !c.minimise_seeded()) {
                    // only the first two violations of an invariant per shard are minimised; explicit seeds are minimal already
                    let _ = writeln!(out, "V {}", json!({"run": idx, "invariant": v.invariant, "detail": v.detail, "tried": 0, "trace_hash": o.trace_hash, "haystack": c.haystack(&sc), "scenario": sc_json}));
                } else {
                    let (min, tried) = minimise(c, &sc, &v.invariant, 2000, Duration::from_secs(20));
                    let mo = c.execute(&min);
                    let mv = mo.violation.clone().unwrap_or(v.clone());
                    let _ = writeln!(
                        out,
                        "V {}",
                        json!({"run": idx, "invariant": mv.invariant, "detail": mv.detail, "tried": tried, "trace_hash": mo.trace_hash,
                               "haystack": c.haystack(&min), "scenario": serde_json::to_value(&min).unwrap_or(Value::Null)})
                    );
                }
                verdicts += 1;
            }
            (None, Some(a)) => {
                *abstains.entry(a.clone()).or_insert(0) += 1;
            }
            (None, None) => {
                verdicts += 1;
            }
        }
        if samples.len() < 2 && idx >= 0 && o.nontrivial && o.violation.is_none() {
            samples.push(sc_json);
        }
        idx += 1;
    }
    let op_steps: BTreeMap<String, u64> = crate::world::ALL_INSTRUCTIONS[..56]
        .iter()
        .map(|i| (format!("{:?}", i), crate::world::OP_STEPS[*i as usize].load(std::sync::atomic::Ordering::Relaxed)))
        .collect();
    let summary = json!({
        "op_steps": op_steps,
        "capped": capped, "runs": runs, "verdicts": verdicts, "abstains": abstains, "stats": agg_stats, "probes": probes,
        "sched": sched.iter().collect::<Vec<_>>(), "states": states.iter().collect::<Vec<_>>(),
        "nontrivial": nontrivial.iter().collect::<Vec<_>>(), "samples": samples,
        "trace_hashes": if hashes_only { json!(trace_hashes) } else { json!([]) },
    });
    let _ = writeln!(out, "D {}", summary);
    let _ = out.flush();
}

// ---------------------------------------------------------------------------------------------
// parent: spawns shards, watches them, merges, reports

pub struct Merged {
    pub capped: bool,
    pub runs: u64,
    pub verdicts: u64,
    pub abstains: BTreeMap<String, u64>,
    pub stats: BTreeMap<String, u64>,
    pub probes: BTreeMap<String, u64>,
    pub op_steps: BTreeMap<String, u64>,
    /// runs that took more than 1.5 s of wall clock, and the slowest of them (milliseconds, run index)
    pub slow_runs: u64,
    pub slowest: (u64, i64),
    pub sched: BTreeSet<u64>,
    pub states: BTreeSet<u64>,
    pub nontrivial: BTreeSet<u64>,
    pub samples: Vec<Value>,
    pub violations: Vec<Value>,
    pub foreign_panics: Vec<Value>,
    pub dead_shards: Vec<(u64, i64, String)>,
    pub trace_hashes: BTreeMap<i64, u64>,
}

enum Msg {
    Line(u64, String),
    Eof(u64),
}

pub fn drive(prop: &str, tier: Tier, master: u64, shards: u64, total: u64, hashes_only: bool, stall_secs: u64) -> Merged {
    let exe = std::env::current_exe().expect("current_exe");
    let (tx, rx) = mpsc::channel::<Msg>();
    let mut children = vec![];
    for k in 0..shards {
        // each shard under an address-space limit: allocation failure aborts, it cannot be caught in-process
        let cmd = format!(
            "ulimit -v 6000000; exec '{}' worker {} --tier {} --seed {} --shard {} --shards {} --total {} {}",
            exe.display(),
            prop,
            tier.name(),
            master,
            k,
            shards,
            total,
            if hashes_only { "--hashes-only" } else { "" }
        );
        let mut child = Command::new("sh")
            .arg("-c")
            .arg(cmd)
            .env("RUST_BACKTRACE", "0")
            .env("RUST_LIB_BACKTRACE", "0")
            .stdout(Stdio::piped())
            .stderr(Stdio::null())
            .spawn()
            .expect("spawn shard");
        let so = child.stdout.take().unwrap();
        let tx2 = tx.clone();
        std::thread::spawn(move || {
            let r = BufReader::new(so);
            for line in r.lines() {
                match line {
                    Ok(l) => {
                        if tx2.send(Msg::Line(k, l)).is_err() {
                            break;
                        }
                    }
                    Err(_) => break,
                }
            }
            let _ = tx2.send(Msg::Eof(k));
        });
        children.push(child);
    }
    drop(tx);
    let mut m = Merged {
        capped: false,
        runs: 0,
        verdicts: 0,
        abstains: BTreeMap::new(),
        stats: BTreeMap::new(),
        probes: BTreeMap::new(),
        op_steps: BTreeMap::new(),
        slow_runs: 0,
        slowest: (0, 0),
        sched: BTreeSet::new(),
        states: BTreeSet::new(),
        nontrivial: BTreeSet::new(),
        samples: vec![],
        violations: vec![],
        foreign_panics: vec![],
        dead_shards: vec![],
        trace_hashes: BTreeMap::new(),
    };
    let mut last_start: Vec<i64> = vec![i64::MIN; shards as usize];
    let mut last_seen: Vec<Instant> = vec![Instant::now(); shards as usize];
    let mut done: Vec<bool> = vec![false; shards as usize];
    let mut eof: Vec<bool> = vec![false; shards as usize];
    loop {
        if eof.iter().all(|e| *e) {
            break;
        }
        match rx.recv_timeout(Duration::from_millis(500)) {
            Ok(Msg::Line(k, l)) => {
                last_seen[k as usize] = Instant::now();
                if let Some(rest) = l.strip_prefix("S ") {
                    last_start[k as usize] = rest.trim().parse().unwrap_or(i64::MIN);
                } else if let Some(rest) = l.strip_prefix("W ") {
                    let mut it = rest.split_whitespace();
                    let idx: i64 = it.next().and_then(|x| x.parse().ok()).unwrap_or(0);
                    let ms: u64 = it.next().and_then(|x| x.parse().ok()).unwrap_or(0);
                    m.slow_runs += 1;
                    if ms > m.slowest.0 {
                        m.slowest = (ms, idx);
                    }
                } else if let Some(rest) = l.strip_prefix("V ") {
                    if let Ok(v) = serde_json::from_str::<Value>(rest) {
                        m.violations.push(v);
                    }
                } else if let Some(rest) = l.strip_prefix("P ") {
                    if let Ok(v) = serde_json::from_str::<Value>(rest) {
                        if m.foreign_panics.len() < 20 {
                            m.foreign_panics.push(v);
                        }
                    }
                } else if let Some(rest) = l.strip_prefix("D ") {
                    done[k as usize] = true;
                    if let Ok(v) = serde_json::from_str::<Value>(rest) {
                        m.runs += v["runs"].as_u64().unwrap_or(0);
                        m.capped |= v["capped"].as_bool().unwrap_or(false);
                        m.verdicts += v["verdicts"].as_u64().unwrap_or(0);
                        for (name, field) in [("abstains", &mut m.abstains), ("stats", &mut m.stats), ("probes", &mut m.probes), ("op_steps", &mut m.op_steps)] {
                            if let Some(o) = v[name].as_object() {
                                for (kk, vv) in o {
                                    *field.entry(kk.clone()).or_insert(0) += vv.as_u64().unwrap_or(0);
                                }
                            }
                        }
                        for (name, set) in [("sched", &mut m.sched), ("states", &mut m.states), ("nontrivial", &mut m.nontrivial)] {
                            if let Some(a) = v[name].as_array() {
                                for x in a {
                                    if let Some(u) = x.as_u64() {
                                        set.insert(u);
                                    }
                                }
                            }
                        }
                        if let Some(a) = v["samples"].as_array() {
                            for s in a {
                                if m.samples.len() < 4 {
                                    m.samples.push(s.clone());
                                }
                            }
                        }
                        if let Some(a) = v["trace_hashes"].as_array() {
                            for p in a {
                                if let (Some(i), Some(h)) = (p[0].as_i64(), p[1].as_u64()) {
                                    m.trace_hashes.insert(i, h);
                                }
                            }
                        }
                    }
                }
            }
            Ok(Msg::Eof(k)) => {
                eof[k as usize] = true;
                if !done[k as usize] {
                    m.dead_shards.push((k, last_start[k as usize], "died".to_string()));
                }
            }
            Err(mpsc::RecvTimeoutError::Timeout) => {
                for k in 0..shards as usize {
                    if !eof[k] && !done[k] && last_seen[k].elapsed() > Duration::from_secs(stall_secs) {
                        let _ = children[k].kill();
                        m.dead_shards.push((k as u64, last_start[k], "stalled".to_string()));
                        done[k] = true;
                    }
                }
            }
            Err(mpsc::RecvTimeoutError::Disconnected) => break,
        }
    }
    for mut c in children {
        let _ = c.wait();
    }
    // deterministic order
    m.violations.sort_by_key(|v| v["run"].as_i64().unwrap_or(0));
    m.foreign_panics.sort_by_key(|v| v["run"].as_i64().unwrap_or(0));
    m
}

pub struct CheckArgs {
    pub tier: Tier,
    pub seed: u64,
    pub shards: u64,
    pub verif_root: String,
    pub runs_override: Option<u64>,
}

/// The whole check for one property: exit code 0 / 1 / 2.
pub fn check<C: Campaign>(c: &C, a: &CheckArgs) -> i32 {
    let t0 = Instant::now();
    let prop = c.prop();
    let total = a.runs_override.unwrap_or(c.runs(a.tier));
    println!("CHECK property={} tier={} seed={} runs={} shards={}", prop, a.tier.name(), a.seed, total, a.shards);
    let mut m = drive(prop, a.tier, a.seed, a.shards, total, false, 240);
    let (isolated_run, isolated_violations) = drive_isolated(c, Duration::from_secs(8));
    m.violations.extend(isolated_violations);
    let wall = t0.elapsed().as_secs_f64();
    let known = load_known_findings(&a.verif_root);
    let mut exit = 0;
    let mut known_hit: BTreeMap<String, (String, u64)> = BTreeMap::new();
    let mut unknown: Vec<&Value> = vec![];
    for v in &m.violations {
        let viol = Violation { invariant: v["invariant"].as_str().unwrap_or("").to_string(), detail: v["detail"].as_str().unwrap_or("").to_string() };
        let hay = v["haystack"].as_str().unwrap_or("");
        match match_known(&known, prop, &viol, hay) {
            Some(k) => {
                let e = known_hit.entry(k.id.clone()).or_insert((k.what.clone(), 0));
                e.1 += 1;
            }
            None => unknown.push(v),
        }
    }
    for (id, (what, n)) in &known_hit {
        println!("KNOWN-FINDING: property={} {} — {} ({} occurrence(s) this run)", prop, id, what, n);
    }
    let _ = std::fs::create_dir_all(format!("{}/replays", a.verif_root));
    // one replay file per distinct invariant id (first occurrence in run-index order), at most 5
    let mut seen_inv: BTreeSet<String> = BTreeSet::new();
    for v in &unknown {
        let inv = v["invariant"].as_str().unwrap_or("").to_string();
        if !seen_inv.insert(inv.clone()) || seen_inv.len() > 5 {
            continue;
        }
        let run = v["run"].as_i64().unwrap_or(0);
        let path = format!("{}/replays/{}-{}-{}.json", a.verif_root, prop, a.seed, if run < 0 { format!("s{}", -run) } else { run.to_string() });
        let rf = ReplayFile {
            property: prop.to_string(),
            invariant: inv.clone(),
            detail: v["detail"].as_str().unwrap_or("").to_string(),
            seed: a.seed,
            run_index: run,
            trace_hash: v["trace_hash"].as_u64().unwrap_or(0),
            minimised_in_runs: v["tried"].as_u64().unwrap_or(0) as usize,
            scenario: v["scenario"].clone(),
        };
        let _ = std::fs::write(&path, serde_json::to_string_pretty(&rf).unwrap());
        println!("  invariant={} detail={}", inv, rf.detail);
        println!("VIOLATION property={} replay={}", prop, path);
        exit = 1;
    }
    for (i, p) in m.foreign_panics.iter().enumerate() {
        if i < 3 {
            let path = format!("{}/replays/C07-seen-by-{}-{}-{}.json", a.verif_root, prop, a.seed, p["run"].as_i64().unwrap_or(0));
            let _ = std::fs::write(&path, serde_json::to_string_pretty(p).unwrap());
        }
    }
    let mut harness_error = false;
    for (k, run, why) in &m.dead_shards {
        if prop == "C07" {
            // an abort (allocation failure, stack overflow) or a hang while stepping is a C07 violation
            println!("  shard {} {} while executing run {}", k, why, run);
            let path = format!("{}/replays/C07-{}-abort-{}.json", a.verif_root, a.seed, run);
            // the shard is gone: regenerate the scenario of that run index in a throw-away child (it may hang too)
            let scenario = regenerate_in_child(prop, a.tier, a.seed, *run).unwrap_or(Value::Null);
            let rf = json!({"property": "C07", "invariant": format!("C07.abort.{}", why), "detail": format!("shard {} while stepping", why), "seed": a.seed, "run_index": run,
                "trace_hash": 0, "minimised_in_runs": 0, "scenario": scenario});
            let _ = std::fs::write(&path, serde_json::to_string_pretty(&rf).unwrap());
            println!("VIOLATION property=C07 replay={}", path);
            exit = 1;
        } else {
            println!("HARNESS-ERROR: shard {} {} while executing run {} (not a {} verdict)", k, why, run, prop);
            harness_error = true;
        }
    }
    let verdict_pct = if m.runs > 0 { m.verdicts * 100 / m.runs } else { 0 };
    if m.runs == 0 || verdict_pct < c.min_verdict_pct() {
        println!("HARNESS-ERROR: vacuous: only {}% of {} runs reached a verdict (minimum {}%)", verdict_pct, m.runs, c.min_verdict_pct());
        harness_error = true;
    }
    for (p, n) in &m.probes {
        if *n == 0 {
            println!("WARNING: probe {} never hit", p);
        }
    }
    // evidence
    let nontrivial = m.nontrivial.len() as u64;
    let mut samples = m.samples.clone();
    if samples.is_empty() {
        samples.push(json!("no non-trivial sample recorded"));
    }
    let ev = json!({
        "property_id": prop,
        "tier": a.tier.name(),
        "seed": a.seed,
        "level": c.level(),
        "wall_s": wall,
        "violations": unknown.len(),
        "assumptions": c.assumptions(),
        "coverage": {
            "evaluations": m.runs,
            "distinct_nontrivial": nontrivial,
            "rule": c.rule(),
            "samples": samples,
            "exhaustive": false,
            "runs_per_hour": if wall > 0.0 { (m.runs as f64 / wall * 3600.0) as u64 } else { 0 },
            "runs_with_verdict": m.verdicts,
            "abstained": m.abstains,
            "distinct_counts_are_lower_bounds": m.capped,
            "distinct_schedules": m.sched.len(),
            "distinct_states": m.states.len(),
            "counters": m.stats,
            "probes_hit_in_runs": m.probes,
            "slow_runs": {"runs_over_1500_ms": m.slow_runs, "slowest_ms": m.slowest.0, "slowest_run_index": m.slowest.1, "stall_limit_s": 240,
                          "note": "wall-clock figures: informational only, they never enter a verdict except through the stall limit"},
            "instruction_reach": {
                "measure": "how often each of the runtime's instructions was stepped by this check (all shards); an instruction at 0 is outside this check's workload",
                "steps_by_instruction": m.op_steps,
                "never_stepped": m.op_steps.iter().filter(|(_, v)| **v == 0).map(|(k, _)| k.clone()).collect::<Vec<_>>(),
            },
            "known_findings_reproduced": known_hit.iter().map(|(k, v)| (k.clone(), v.1)).collect::<BTreeMap<_, _>>(),
            "foreign_panics_seen": m.foreign_panics.len(),
            "isolated_scenarios_run_in_their_own_process": isolated_run,
            "components": c.components(),
            "simulated_time": "logical only: the event sequence number (runtime steps, store operations, compactions, builds are counted under counters); garnish-core has no clock",
        }
    });
    let _ = std::fs::create_dir_all(format!("{}/evidence", a.verif_root));
    let _ = std::fs::write(format!("{}/evidence/{}.json", a.verif_root, prop), serde_json::to_string_pretty(&ev).unwrap());
    println!(
        "SUMMARY property={} runs={} verdicts={} abstained={} violations={} known={} distinct_schedules={} distinct_states={} nontrivial={} wall={:.1}s",
        prop,
        m.runs,
        m.verdicts,
        m.abstains.values().sum::<u64>(),
        unknown.len(),
        known_hit.len(),
        m.sched.len(),
        m.states.len(),
        nontrivial,
        wall
    );
    if exit == 1 {
        return 1;
    }
    if harness_error {
        return 2;
    }
    0
}

fn regenerate_in_child(prop: &str, tier: Tier, seed: u64, run: i64) -> Option<Value> {
    if run < 0 {
        return None;
    }
    let exe = std::env::current_exe().ok()?;
    let mut child = Command::new(exe)
        .args(["show", prop, &run.to_string(), "--tier", tier.name(), "--seed", &seed.to_string()])
        .env("RUST_BACKTRACE", "0")
        .stdout(Stdio::piped())
        .stderr(Stdio::null())
        .spawn()
        .ok()?;
    let t0 = Instant::now();
    loop {
        match child.try_wait() {
            Ok(Some(_)) => break,
            Ok(None) => {
                if t0.elapsed() > Duration::from_secs(20) {
                    let _ = child.kill();
                    return None;
                }
                std::thread::sleep(Duration::from_millis(50));
            }
            Err(_) => return None,
        }
    }
    let mut s = String::new();
    use std::io::Read;
    child.stdout.take()?.read_to_string(&mut s).ok()?;
    serde_json::from_str(&s).ok()
}

pub fn replay<C: Campaign>(c: &C, path: &str) -> i32 {
    let s = match std::fs::read_to_string(path) {
        Ok(s) => s,
        Err(e) => {
            println!("HARNESS-ERROR: cannot read {path}: {e}");
            return 2;
        }
    };
    let rf: ReplayFile = match serde_json::from_str(&s) {
        Ok(r) => r,
        Err(e) => {
            println!("HARNESS-ERROR: cannot parse {path}: {e}");
            return 2;
        }
    };
    let sc: C::Scenario = match serde_json::from_value(rf.scenario.clone()) {
        Ok(s) => s,
        Err(e) => {
            println!("HARNESS-ERROR: scenario in {path} does not fit {}: {e}", c.prop());
            return 2;
        }
    };
    let o = c.execute(&sc);
    match o.violation {
        Some(v) => {
            println!("  invariant={} detail={}", v.invariant, v.detail);
            println!("  trace_hash={} (recorded {}) {}", o.trace_hash, rf.trace_hash, if o.trace_hash == rf.trace_hash { "identical" } else { "DIFFERENT" });
            println!("VIOLATION property={} replay={}", c.prop(), path);
            1
        }
        None => {
            println!("replay of {} did not violate (abstain={:?})", path, o.abstain);
            0
        }
    }
}

/// generic helpers for shrinking
pub fn drop_each<T: Clone>(v: &[T]) -> Vec<Vec<T>> {
    let mut out = vec![];
    // halves first, then single elements
    if v.len() >= 4 {
        out.push(v[..v.len() / 2].to_vec());
        out.push(v[v.len() / 2..].to_vec());
    }
    for i in 0..v.len() {
        let mut c = v.to_vec();
        c.remove(i);
        out.push(c);
    }
    out
}
