//! Driving the real pipeline: lex → parse → build into a (possibly shared) data object, start a run,
//! step it one instruction at a time under catch_unwind, observe the machine state structurally.

use crate::simdata::SimData;
use crate::val::{materialise, read_val, Val, GD};
use garnish_lang_compiler::build::build;
use garnish_lang_compiler::lex::lex;
use garnish_lang_compiler::parse::{parse, ParseResult};
use garnish_lang_runtime::{execute_current_instruction, SimpleRuntimeState};
use garnish_lang_traits::{ErrorType, Instruction};
use std::cell::RefCell;
use std::panic::{catch_unwind, AssertUnwindSafe};
use std::sync::Once;

thread_local! {
    static LAST_PANIC: RefCell<Option<String>> = RefCell::new(None);
}

static HOOK: Once = Once::new();

/// Quiet panic hook: remembers message and location for the report, prints nothing.
pub fn install_panic_hook() {
    HOOK.call_once(|| {
        std::panic::set_hook(Box::new(|info| {
            let msg = if let Some(s) = info.payload().downcast_ref::<&str>() {
                s.to_string()
            } else if let Some(s) = info.payload().downcast_ref::<String>() {
                s.clone()
            } else {
                "<non-string panic>".to_string()
            };
            let loc = info.location().map(|l| format!("{}:{}", l.file(), l.line())).unwrap_or_default();
            LAST_PANIC.with(|p| *p.borrow_mut() = Some(format!("{} @ {}", msg, loc)));
        }));
    });
}

pub fn take_panic() -> String {
    LAST_PANIC.with(|p| p.borrow_mut().take()).unwrap_or_else(|| "<unknown panic>".to_string())
}

/// run `f`, converting a panic into Err(message @ location)
pub fn guarded<T>(f: impl FnOnce() -> T) -> Result<T, String> {
    match catch_unwind(AssertUnwindSafe(f)) {
        Ok(v) => Ok(v),
        Err(_) => Err(take_panic()),
    }
}

#[derive(Clone, Debug)]
pub struct Built {
    pub src: String,
    pub entry_jump: usize,
    /// [start, end) of this build's instructions / jump entries / data slots in the shared object
    pub instr: (usize, usize),
    pub jumps: (usize, usize),
    pub data: (usize, usize),
    pub parse: ParseResult,
}

#[derive(Clone, Debug)]
pub enum BuildOutcome {
    Ok(Built),
    LexErr(String),
    ParseErr(String),
    /// build returned Err after possibly emitting part of the program
    BuildErr { msg: String, instr: (usize, usize), jumps: (usize, usize), data: (usize, usize) },
    Panic(String),
}

impl BuildOutcome {
    pub fn built(&self) -> Option<&Built> {
        match self {
            BuildOutcome::Ok(b) => Some(b),
            _ => None,
        }
    }
    pub fn tag(&self) -> &'static str {
        match self {
            BuildOutcome::Ok(_) => "ok",
            BuildOutcome::LexErr(_) => "lex-err",
            BuildOutcome::ParseErr(_) => "parse-err",
            BuildOutcome::BuildErr { .. } => "build-err",
            BuildOutcome::Panic(_) => "panic",
        }
    }
}

pub fn front_end(src: &str) -> Result<ParseResult, BuildOutcome> {
    let tokens = match guarded(|| lex(src)) {
        Err(p) => return Err(BuildOutcome::Panic(format!("lex: {p}"))),
        Ok(Err(e)) => return Err(BuildOutcome::LexErr(e.to_string())),
        Ok(Ok(t)) => t,
    };
    match guarded(|| parse(&tokens)) {
        Err(p) => Err(BuildOutcome::Panic(format!("parse: {p}"))),
        Ok(Err(e)) => Err(BuildOutcome::ParseErr(e.to_string())),
        Ok(Ok(t)) => Ok(t),
    }
}

/// lex + parse + build `src` into `d` (which may already hold other programs).
pub fn compile<D: GD>(d: &mut D, src: &str) -> BuildOutcome {
    let parsed = match front_end(src) {
        Ok(p) => p,
        Err(o) => return o,
    };
    let i0 = d.get_instruction_len();
    let j0 = d.get_jump_table_len();
    let d0 = d.get_data_len();
    let r = guarded(|| build(parsed.get_root(), parsed.get_nodes().clone(), d));
    let i1 = d.get_instruction_len();
    let j1 = d.get_jump_table_len();
    let d1 = d.get_data_len();
    match r {
        Err(p) => BuildOutcome::Panic(format!("build: {p}")),
        Ok(Err(e)) => BuildOutcome::BuildErr { msg: short_err(&format!("{:?}", e)), instr: (i0, i1), jumps: (j0, j1), data: (d0, d1) },
        Ok(Ok(b)) => BuildOutcome::Ok(Built { src: src.to_string(), entry_jump: *b.jump_index(), instr: (i0, i1), jumps: (j0, j1), data: (d0, d1), parse: parsed }),
    }
}

pub fn short_err(s: &str) -> String {
    let s = s.replace('\n', " ");
    if s.len() > 160 {
        format!("{}…", s.chars().take(160).collect::<String>())
    } else {
        s
    }
}

/// Point the cursor at the entry and push the input value as `$` — what a host does to start a run.
pub fn start<D: GD>(d: &mut D, entry_jump: usize, input: &Val) -> Result<(), String> {
    let at = match d.get_from_jump_table(entry_jump) {
        Some(a) => a,
        None => return Err(format!("no jump entry {entry_jump}")),
    };
    d.set_instruction_cursor(at).map_err(|e| short_err(&format!("{e:?}")))?;
    let a = materialise(d, input).map_err(|e| short_err(&format!("{e:?}")))?;
    d.push_value_stack(a).map_err(|e| short_err(&format!("{e:?}")))?;
    Ok(())
}

#[derive(Clone, Debug, PartialEq, Eq)]
pub enum StepResult {
    Running,
    End,
    /// Err returned by the runtime: (carries the "unsupported types" code?, text)
    Err { unsupported: bool, msg: String },
    Panic(String),
}

impl StepResult {
    pub fn tag(&self) -> &'static str {
        match self {
            StepResult::Running => "running",
            StepResult::End => "end",
            StepResult::Err { .. } => "err",
            StepResult::Panic(_) => "panic",
        }
    }
    pub fn is_store_full(&self) -> bool {
        matches!(self, StepResult::Err { msg, .. } if msg.contains("exceeds max items"))
    }
    pub fn is_host_failure(&self) -> bool {
        matches!(self, StepResult::Err { msg, .. } if msg.contains("simulated host failure"))
    }
}

/// reach measure: how often each instruction was stepped in this process (index = the instruction's number)
pub static OP_STEPS: [std::sync::atomic::AtomicU64; 64] = [const { std::sync::atomic::AtomicU64::new(0) }; 64];

pub const ALL_INSTRUCTIONS: [Instruction; 57] = [
    Instruction::Invalid, Instruction::Put, Instruction::PutValue, Instruction::PushValue, Instruction::UpdateValue, Instruction::JumpTo,
    Instruction::EndExpression, Instruction::Add, Instruction::Subtract, Instruction::Multiply, Instruction::Divide, Instruction::IntegerDivide,
    Instruction::Power, Instruction::Opposite, Instruction::AbsoluteValue, Instruction::Remainder, Instruction::BitwiseNot, Instruction::BitwiseAnd,
    Instruction::BitwiseOr, Instruction::BitwiseXor, Instruction::BitwiseShiftLeft, Instruction::BitwiseShiftRight, Instruction::And, Instruction::Or,
    Instruction::Xor, Instruction::Not, Instruction::Tis, Instruction::JumpIfTrue, Instruction::JumpIfFalse, Instruction::TypeOf, Instruction::ApplyType,
    Instruction::TypeEqual, Instruction::Equal, Instruction::NotEqual, Instruction::LessThan, Instruction::LessThanOrEqual, Instruction::GreaterThan,
    Instruction::GreaterThanOrEqual, Instruction::MakePair, Instruction::MakeList, Instruction::Apply, Instruction::PartialApply, Instruction::EmptyApply,
    Instruction::Reapply, Instruction::Access, Instruction::AccessLeftInternal, Instruction::AccessRightInternal, Instruction::AccessLengthInternal,
    Instruction::Resolve, Instruction::StartSideEffect, Instruction::EndSideEffect, Instruction::MakeRange, Instruction::MakeStartExclusiveRange,
    Instruction::MakeEndExclusiveRange, Instruction::MakeExclusiveRange, Instruction::Concat, Instruction::Invalid,
];

pub fn step<D: GD>(d: &mut D) -> StepResult {
    if let Some((ins, _)) = d.get_instruction(d.get_instruction_cursor()) {
        OP_STEPS[(ins as usize) & 63].fetch_add(1, std::sync::atomic::Ordering::Relaxed);
    }
    match guarded(|| execute_current_instruction(d)) {
        Err(p) => StepResult::Panic(p),
        Ok(Err(e)) => StepResult::Err { unsupported: e.get_type() == ErrorType::UnsupportedOpTypes, msg: short_err(&format!("{:?}", e)) },
        Ok(Ok(info)) => match info.get_state() {
            SimpleRuntimeState::Running => StepResult::Running,
            SimpleRuntimeState::End => StepResult::End,
        },
    }
}

pub fn current_instruction<D: GD>(d: &D) -> Option<(Instruction, Option<usize>)> {
    d.get_instruction(d.get_instruction_cursor())
}

/// Address-free picture of the machine: what the next instructions can observe.
#[derive(Clone, Debug, PartialEq, Eq)]
pub struct Obs {
    pub cursor: usize,
    pub operands: Vec<Val>,
    pub values: Vec<Val>,
    pub frames: Vec<(usize, usize)>,
}

impl Obs {
    pub fn over_budget(&self) -> bool {
        self.operands.iter().any(|v| v.over_budget()) || self.values.iter().any(|v| v.over_budget())
    }
}

pub fn observe<D: SimData>(d: &D) -> Obs {
    let r = guarded(|| {
        let operands = d.operands().into_iter().map(|a| read_val(d, a)).collect();
        let values = d.value_stack().into_iter().map(|a| read_val(d, a)).collect();
        let frames = d.frames();
        Obs { cursor: d.get_instruction_cursor(), operands, values, frames }
    });
    match r {
        Ok(o) => o,
        Err(p) => Obs { cursor: usize::MAX, operands: vec![Val::Bad(format!("observer panic: {p}"))], values: vec![], frames: vec![] },
    }
}

/// depths only (cheap): (operands, values, frames)
pub fn depths<D: SimData>(d: &D) -> (usize, usize, usize) {
    (d.operands().len(), d.value_stack().len(), d.frames().len())
}

pub fn current_value<D: GD>(d: &D) -> Option<Val> {
    d.get_current_value().map(|a| read_val(d, a))
}
