//! C08 — undefined operand combinations yield unit, after offering them to the host.
//! The observable is the interaction with the second party (how often, with what arguments and with
//! what effect `defer_op` is called) under different host behaviours.
//!   A. the complete instruction x type-pair matrix (several representative values per type), swept in
//!      every run of the check, under hosts {absent, declining, accepting, failing}, both implementations;
//!   B. seeded programs with exotic operand values, monitored step by step against the same table.
//! The table of what the language defines (spec/defined_ops.json) is part of the trusted base.

use crate::campaign::{Campaign, Outcome, Tier};
use crate::gen::{gen_input, Gen, GenCfg};
use crate::host::{Answer, HasHost, Host, HostCall, HostScript, UNIQUE_BASE};
use crate::rng::{Fnv, Rng};
use crate::simdata::{BasicW, Knobs, SimData, SimpleW};
use crate::val::{materialise, read_val, type_to_u8, SymPart, Val, GD};
use crate::world::{compile, current_instruction, start, step, BuildOutcome, StepResult};
use garnish_lang_simple_data::{symbol_value, BasicGarnishData, NoOpCompanion, SimpleGarnishData};
use garnish_lang_traits::{GarnishData, GarnishDataType, Instruction};
use serde::{Deserialize, Serialize};
use serde_json::{json, Value};
use std::collections::BTreeMap;
use std::sync::OnceLock;

pub const BINARY: [Instruction; 32] = [
    Instruction::Add,
    Instruction::Subtract,
    Instruction::Multiply,
    Instruction::Divide,
    Instruction::IntegerDivide,
    Instruction::Power,
    Instruction::Remainder,
    Instruction::BitwiseAnd,
    Instruction::BitwiseOr,
    Instruction::BitwiseXor,
    Instruction::BitwiseShiftLeft,
    Instruction::BitwiseShiftRight,
    Instruction::Xor,
    Instruction::ApplyType,
    Instruction::TypeEqual,
    Instruction::Equal,
    Instruction::NotEqual,
    Instruction::LessThan,
    Instruction::LessThanOrEqual,
    Instruction::GreaterThan,
    Instruction::GreaterThanOrEqual,
    Instruction::MakePair,
    Instruction::Apply,
    Instruction::PartialApply,
    Instruction::Access,
    Instruction::MakeRange,
    Instruction::MakeStartExclusiveRange,
    Instruction::MakeEndExclusiveRange,
    Instruction::MakeExclusiveRange,
    Instruction::Concat,
    // And / Or carry a jump operand: they are exercised inside programs (workload B) only
    Instruction::Invalid,
    Instruction::Invalid,
];

pub const UNARY: [Instruction; 10] = [
    Instruction::Opposite,
    Instruction::AbsoluteValue,
    Instruction::BitwiseNot,
    Instruction::Not,
    Instruction::Tis,
    Instruction::TypeOf,
    Instruction::EmptyApply,
    Instruction::AccessLeftInternal,
    Instruction::AccessRightInternal,
    Instruction::AccessLengthInternal,
];

/// the cast instruction replaces a Type operand on the right by the type it names
pub fn effective_right(instr: Instruction, r: &Val) -> GarnishDataType {
    match (instr, r) {
        (Instruction::ApplyType, Val::Type(t)) => crate::val::type_from_u8(*t),
        _ => r.data_type(),
    }
}

pub fn is_unary(i: Instruction) -> bool {
    UNARY.contains(&i)
}

pub fn is_binary(i: Instruction) -> bool {
    i != Instruction::Invalid && BINARY.contains(&i)
}

/// several representative values per data type (empty, singleton, typical, nested)
pub fn representatives() -> Vec<Val> {
    let sym = |k: &str| Val::Sym(symbol_value(k));
    let b = |v: Val| Box::new(v);
    vec![
        Val::Unit,
        Val::True,
        Val::False,
        Val::Int(0),
        Val::Int(5),
        Val::Int(-3),
        Val::Float(2.5f64.to_bits()),
        Val::Float(f64::NAN.to_bits()),
        Val::Type(type_to_u8(GarnishDataType::Number)),
        Val::Type(type_to_u8(GarnishDataType::List)),
        // type values that *name* a false kind are themselves true
        Val::Type(type_to_u8(GarnishDataType::Unit)),
        Val::Type(type_to_u8(GarnishDataType::False)),
        Val::Type(type_to_u8(GarnishDataType::Type)),
        Val::Char('a'),
        Val::Byte(7),
        Val::Text("".into()),
        Val::Text("a".into()),
        Val::Text("abc".into()),
        Val::Bytes(b"ab".to_vec()),
        Val::Bytes(b"q".to_vec()),
        sym("ka"),
        sym("zz"),
        Val::SymList(vec![SymPart::Sym(symbol_value("ka")), SymPart::Sym(symbol_value("kb"))]),
        Val::SymList(vec![SymPart::Sym(symbol_value("ka")), SymPart::Sym(symbol_value("kb")), SymPart::Sym(symbol_value("kc"))]),
        Val::pair(sym("ka"), Val::Int(1)),
        Val::pair(Val::Int(1), Val::Int(2)),
        Val::Range(b(Val::Int(1)), b(Val::Int(4))),
        Val::Range(b(Val::Int(0)), b(Val::Int(0))),
        Val::Concat(b(Val::Int(1)), b(Val::Int(2))),
        Val::Concat(b(Val::pair(sym("ka"), Val::Int(1))), b(Val::pair(sym("kb"), Val::Int(2)))),
        Val::Slice(b(Val::List(vec![Val::Int(10), Val::Int(20), Val::Int(30)])), b(Val::Range(b(Val::Int(0)), b(Val::Int(2))))),
        Val::Slice(b(Val::Text("hello".into())), b(Val::Range(b(Val::Int(1)), b(Val::Int(3))))),
        Val::Partial(b(Val::Expr(0)), b(Val::Int(1))),
        Val::Partial(b(Val::Int(5)), b(Val::Int(6))),
        Val::List(vec![]),
        Val::List(vec![Val::Int(1)]),
        // containers of false values are themselves true
        Val::List(vec![Val::Unit]),
        Val::pair(Val::Unit, Val::False),
        Val::List(vec![Val::Int(1), Val::Int(2), Val::Int(3)]),
        Val::List(vec![Val::pair(sym("ka"), Val::Int(1)), Val::pair(sym("kb"), Val::List(vec![Val::Int(2)]))]),
        Val::Expr(0),
        Val::External(1),
        // a value of the host's own type
        Val::Custom,
    ]
}

#[derive(Clone, Debug, PartialEq, Eq)]
pub enum Status {
    Ok,
    ErrUnsupported,
    ErrOther,
    Panic(String),
}

pub struct Observed {
    pub status: Status,
    /// value on top of the operand stack after the step
    pub top: Option<Val>,
    pub depth_before: usize,
    pub depth_after: usize,
    pub laddr: usize,
    pub raddr: usize,
    /// where the step left the instruction cursor, and whether it reported that the program goes on
    pub cursor_after: usize,
    pub running: bool,
    /// the instruction after the one that was stepped
    pub expected_cursor: usize,
    /// the operands that were pending beneath the operation's own are still there, unchanged
    pub beneath_ok: bool,
}

/// one matrix entry in a fresh world: operands materialised through the data interface, the single
/// instruction appended, stepped once
pub fn run_entry<D: GD>(d: &mut D, instr: Instruction, l: Option<&Val>, r: &Val, retain_first: bool) -> Result<Observed, String> {
    let e = |x: garnish_lang_simple_data::DataError| format!("{:?}", x);
    // instruction 0 is the target of expression values (jump entry 0), 1 is the instruction under test
    d.push_to_jump_table(0).map_err(e)?;
    d.push_instruction(Instruction::EndExpression, None).map_err(e)?;
    d.push_instruction(instr, None).map_err(e)?;
    d.push_instruction(Instruction::EndExpression, None).map_err(e)?;
    d.push_instruction(Instruction::EndExpression, None).map_err(e)?;
    // the current input `$` is a value no operation under test produces: a result that is `$` instead of unit shows
    let input = d.add_number(garnish_lang_simple_data::SimpleNumber::Integer(424_242)).map_err(e)?;
    d.push_value_stack(input).map_err(e)?;
    // one finished value is pending beneath the operation's own operands
    let beneath = d.add_number(garnish_lang_simple_data::SimpleNumber::Integer(31_337)).map_err(e)?;
    d.push_register(beneath).map_err(e)?;
    let mut laddr = 0;
    if let Some(l) = l {
        laddr = materialise(d, l).map_err(e)?;
        d.push_register(laddr).map_err(e)?;
    }
    let raddr = materialise(d, r).map_err(e)?;
    d.push_register(raddr).map_err(e)?;
    d.set_instruction_cursor(1).map_err(e)?;
    if retain_first {
        // BasicGarnishData: a host that may compact inside its callback has put what was built so far (here: the
        // operands too) into the retained prefix
        if let Some(b) = (d as &mut dyn std::any::Any).downcast_mut::<crate::simdata::BasicW>() {
            b.retain_all_current_data();
        }
    }
    let depth_before = d.get_register_len();
    let res = step(d);
    let running = res == StepResult::Running;
    let cursor_after = d.get_instruction_cursor();
    let status = match res {
        StepResult::Running | StepResult::End => Status::Ok,
        StepResult::Err { unsupported: true, .. } => Status::ErrUnsupported,
        StepResult::Err { .. } => Status::ErrOther,
        StepResult::Panic(p) => Status::Panic(p),
    };
    let depth_after = d.get_register_len();
    let top = if depth_after > 0 { d.get_register(depth_after - 1).map(|a| read_val(d, a)) } else { None };
    // only judged when the step succeeded (an Err may legitimately leave operands consumed)
    let beneath_ok = status != Status::Ok || d.get_register(0).map(|a| read_val(d, a)) == Some(Val::Int(31_337));
    Ok(Observed { status, top, depth_before, depth_after, laddr: if l.is_some() { laddr } else { raddr }, raddr, cursor_after, running, expected_cursor: 2, beneath_ok })
}

// -------------------------------------------------------------------------------------------
// the table

pub type Spec = BTreeMap<String, BTreeMap<String, String>>;

fn type_name(t: GarnishDataType) -> String {
    format!("{:?}", t)
}

pub fn key(l: Option<GarnishDataType>, r: GarnishDataType) -> String {
    match l {
        Some(l) => format!("{},{}", type_name(l), type_name(r)),
        None => type_name(r),
    }
}

static SPEC: OnceLock<Spec> = OnceLock::new();

pub fn spec() -> &'static Spec {
    SPEC.get_or_init(|| {
        let root = std::env::var("VERIF_ROOT").unwrap_or_else(|_| "/verif".to_string());
        let p = format!("{root}/spec/defined_ops.json");
        let s = std::fs::read_to_string(&p).unwrap_or_else(|e| {
            eprintln!("HARNESS-ERROR: cannot read {p}: {e}");
            std::process::exit(2);
        });
        serde_json::from_str(&s).unwrap_or_else(|e| {
            eprintln!("HARNESS-ERROR: cannot parse {p}: {e}");
            std::process::exit(2);
        })
    })
}

pub fn classify(instr: Instruction, l: Option<GarnishDataType>, r: GarnishDataType) -> Option<&'static str> {
    spec().get(&format!("{:?}", instr)).and_then(|m| m.get(&key(l, r))).map(|s| s.as_str())
}

/// `record`: observe the tree as it is and print a draft table (reviewed by hand before it is committed)
pub fn record() -> Value {
    let reps = representatives();
    let mut table: BTreeMap<String, BTreeMap<String, BTreeMap<String, u32>>> = BTreeMap::new();
    let mut run = |instr: Instruction, l: Option<&Val>, r: &Val| {
        for basic in [false, true] {
            let (status, calls) = if basic {
                let mut d = BasicW::create(Host::new(HostScript::default()), &Knobs::default()).unwrap();
                let o = run_entry(&mut d, instr, l, r, false);
                (o.map(|o| o.status), d.host().log.iter().filter(|c| matches!(c, HostCall::Defer { .. })).count())
            } else {
                let mut d = SimpleW::create(Host::new(HostScript::default()), &Knobs::default()).unwrap();
                let o = run_entry(&mut d, instr, l, r, false);
                (o.map(|o| o.status), d.host().log.iter().filter(|c| matches!(c, HostCall::Defer { .. })).count())
            };
            let class = match (&status, calls) {
                (Err(_), _) => "setup-failed".to_string(),
                (Ok(Status::Ok), 0) => "defined".to_string(),
                (Ok(Status::Ok), 1) => "deferred".to_string(),
                (Ok(Status::Ok), n) => format!("called-{}-times", n),
                (Ok(Status::ErrUnsupported), _) => "err-unsupported".to_string(),
                (Ok(Status::ErrOther), 0) => "err-other".to_string(),
                (Ok(Status::ErrOther), _) => "err-after-call".to_string(),
                (Ok(Status::Panic(_)), _) => "panic".to_string(),
            };
            let k = key(l.map(|v| v.data_type()), effective_right(instr, r));
            *table.entry(format!("{:?}", instr)).or_default().entry(k).or_default().entry(format!("{}:{}", if basic { "basic" } else { "simple" }, class)).or_default() += 1;
        }
    };
    for instr in BINARY.iter().filter(|i| **i != Instruction::Invalid) {
        for l in &reps {
            for r in &reps {
                run(*instr, Some(l), r);
            }
        }
    }
    for instr in UNARY.iter() {
        for r in &reps {
            run(*instr, None, r);
        }
    }
    // collapse: a pair is `deferred` if the host was offered it for every representative on both
    // implementations, `defined` if never; anything else is printed verbatim for review
    let mut out: BTreeMap<String, BTreeMap<String, String>> = BTreeMap::new();
    for (i, m) in table {
        for (k, classes) in m {
            let names: Vec<&str> = classes.keys().map(|s| s.split(':').nth(1).unwrap()).collect();
            let all = |x: &str| names.iter().all(|n| *n == x);
            let v = if all("deferred") {
                "deferred".to_string()
            } else if names.iter().all(|n| *n == "defined" || *n == "err-other") {
                if names.iter().any(|n| *n == "defined") { "defined".to_string() } else { "defined-err".to_string() }
            } else {
                format!("REVIEW {:?}", classes)
            };
            out.entry(i.clone()).or_default().insert(k, v);
        }
    }
    json!(out)
}

// -------------------------------------------------------------------------------------------
// the campaign

#[derive(Clone, Copy, Debug, Serialize, Deserialize, PartialEq, Eq)]
pub enum HostMode {
    Absent,
    Declining,
    Accepting,
    Failing,
    /// accepting, and after an accepted Apply / EmptyApply the host leaves the cursor on the next instruction
    /// (what a host that ran an expression of its own inside the callback leaves behind)
    AcceptingNested,
    /// BasicGarnishData: the host compacts the store inside the callback, then declines
    DecliningCompacting,
    /// an earlier deferred operation offered on the same store was answered with Err by the host (the store's
    /// `defer_op` entry point called directly, before the entry under test); afterwards the host declines / accepts
    DecliningAfterFailure,
    AcceptingAfterFailure,
    /// the host re-enters the runtime inside the callback with an undefined operation of its own (`ops::add` on a
    /// symbol and a number), which must be offered to it as well (it declines that one), then declines / accepts
    DecliningReentering,
    AcceptingReentering,
}

impl HostMode {
    /// what the host finally answers to the operation under test
    fn base(self) -> HostMode {
        match self {
            HostMode::DecliningAfterFailure | HostMode::DecliningReentering => HostMode::Declining,
            HostMode::AcceptingAfterFailure | HostMode::AcceptingReentering => HostMode::Accepting,
            m => m,
        }
    }
    fn after_failure(self) -> bool {
        matches!(self, HostMode::DecliningAfterFailure | HostMode::AcceptingAfterFailure)
    }
    fn reentering(self) -> bool {
        matches!(self, HostMode::DecliningReentering | HostMode::AcceptingReentering)
    }
}

/// the residue of an earlier failure: one offer made through the store's own `defer_op` entry point is answered
/// with Err by the host (callback number 0 of the script). Returns false when the store swallowed the failure.
fn failed_offer_prelude<D: SimData>(d: &mut D) -> bool {
    let r = d.defer_op(Instruction::Add, (GarnishDataType::Unit, 0), (GarnishDataType::Unit, 0));
    d.host_mut().log.clear();
    r.is_err()
}

#[derive(Clone, Debug, Serialize, Deserialize)]
pub enum Sc08 {
    /// the whole value-pair matrix of one instruction under one host mode on one implementation;
    /// `only` restricts it to one pair of representative indices (used by minimisation / replay)
    Matrix { basic: bool, mode: HostMode, instr: String, only: Option<(usize, usize)> },
    /// a generated program monitored step by step
    Program { basic: bool, mode: HostMode, src: String, input: Val, script: HostScript },
}

pub struct C08;

fn instr_by_name(name: &str) -> Option<Instruction> {
    BINARY.iter().chain(UNARY.iter()).find(|i| format!("{:?}", i) == name).copied()
}

fn script_for(mode: HostMode) -> HostScript {
    let mut s = HostScript::default();
    s.defer_default = Some(match mode {
        HostMode::Absent | HostMode::Declining | HostMode::DecliningAfterFailure => Answer::Decline,
        HostMode::DecliningCompacting => Answer::Compact(Box::new(Answer::Decline)),
        HostMode::Accepting | HostMode::AcceptingNested | HostMode::AcceptingAfterFailure => Answer::Unique,
        HostMode::Failing => Answer::Fail,
        HostMode::DecliningReentering => Answer::Reenter(Box::new(Answer::Decline)),
        HostMode::AcceptingReentering => Answer::Reenter(Box::new(Answer::Unique)),
    });
    if mode.after_failure() {
        s.nth_override.insert(0, Answer::Fail);
    }
    s.leaves_cursor_after_apply = mode == HostMode::AcceptingNested;
    s
}

/// checks one observed entry against the table; returns (invariant, detail) on violation
#[allow(clippy::too_many_arguments)]
fn judge(instr: Instruction, lt: Option<GarnishDataType>, rt: GarnishDataType, mode: HostMode, o: &Observed, calls: Option<&[HostCall]>, absent_twin: Option<&Observed>, label: &str) -> Option<(String, String)> {
    let class = classify(instr, lt, rt)?;
    let arity = if lt.is_some() { 2 } else { 1 };
    if let Status::Panic(p) = &o.status {
        // panics belong to C07; C08 reports them only for pairs the host must be offered
        if class == "deferred" {
            return Some(("C08.P8.deferred-pair-panicked".into(), format!("{label}: {p}")));
        }
        return None;
    }
    if o.status == Status::ErrUnsupported {
        return Some(("C08.P8.unsupported-types-code-escaped".into(), format!("{label}: the 'unsupported operand types' code reached the host as Err")));
    }
    let defer_calls: Vec<&HostCall> = calls.map(|c| c.iter().filter(|x| matches!(x, HostCall::Defer { .. })).collect()).unwrap_or_default();
    match class {
        "deferred" => {
            if let Some(_c) = calls {
                let mut defer_calls = defer_calls.clone();
                if mode.reentering() {
                    // the operation the host ran inside its callback comes first (it completes first)
                    let nested_ok = defer_calls.len() == 2
                        && matches!(defer_calls[0], HostCall::Defer { instr: ci, lt: clt, rt: crt, .. }
                            if ci == "Add" && *clt == type_to_u8(GarnishDataType::Symbol) && *crt == type_to_u8(GarnishDataType::Number));
                    if !nested_ok {
                        return Some((
                            "C08.P1.call-count".into(),
                            format!("{label}: {} defer_op call(s) recorded; expected two: the undefined Add (Symbol, Number) the host ran inside its callback, then the operation itself", defer_calls.len()),
                        ));
                    }
                    defer_calls.remove(0);
                }
                if defer_calls.len() != 1 {
                    return Some(("C08.P1.call-count".into(), format!("{label}: defer_op called {} times, expected exactly once", defer_calls.len())));
                }
                if let HostCall::Defer { instr: ci, lt: clt, rt: crt, laddr, raddr, .. } = defer_calls[0] {
                    if *ci != format!("{:?}", instr) {
                        return Some(("C08.P2.instruction".into(), format!("{label}: host was offered {} instead of {:?}", ci, instr)));
                    }
                    let (want_lt, want_rt, want_l, want_r) = match lt {
                        Some(lt) => (lt, rt, o.laddr, o.raddr),
                        // unary operations pass their operand as left and (Unit, 0) as right
                        None => (rt, GarnishDataType::Unit, o.raddr, 0),
                    };
                    // EmptyApply pushes a fresh unit as its right operand: any address is right for it
                    let raddr_ok = *raddr == want_r || instr == Instruction::EmptyApply;
                    if *clt != type_to_u8(want_lt) || *crt != type_to_u8(want_rt) || *laddr != want_l || !raddr_ok {
                        return Some((
                            "C08.P2.operands".into(),
                            format!("{label}: host was offered ({},{}) ({},{}), expected ({:?},{}) ({:?},{})", clt, laddr, crt, raddr, want_lt, want_l, want_rt, want_r),
                        ));
                    }
                }
            }
            match mode.base() {
                HostMode::DecliningAfterFailure | HostMode::AcceptingAfterFailure | HostMode::DecliningReentering | HostMode::AcceptingReentering => unreachable!(),
                HostMode::Failing => {
                    if o.status == Status::Ok {
                        return Some(("C08.P6.failing-host-ignored".into(), format!("{label}: the callback returned Err but the step returned Ok")));
                    }
                }
                HostMode::Absent | HostMode::Declining | HostMode::DecliningCompacting => {
                    if o.status != Status::Ok {
                        return Some(("C08.P3.declined-is-not-ok".into(), format!("{label}: host declined, step returned {:?}", o.status)));
                    }
                    if o.top != Some(Val::Unit) {
                        return Some(("C08.P3.declined-result-not-unit".into(), format!("{label}: host declined, result is {:?}", o.top.as_ref().map(|v| v.short()))));
                    }
                    if o.depth_after + arity != o.depth_before + 1 {
                        return Some(("C08.P3.depth".into(), format!("{label}: operand depth {} -> {}, expected {}", o.depth_before, o.depth_after, o.depth_before + 1 - arity)));
                    }
                }
                HostMode::Accepting | HostMode::AcceptingNested => {
                    if o.status != Status::Ok {
                        return Some(("C08.P4.accepted-is-not-ok".into(), format!("{label}: host accepted, step returned {:?}", o.status)));
                    }
                    if o.top != Some(Val::Int(UNIQUE_BASE + 1)) {
                        return Some(("C08.P4.accepted-result-not-used".into(), format!("{label}: host pushed {}, result is {:?}", UNIQUE_BASE + 1, o.top.as_ref().map(|v| v.short()))));
                    }
                    if o.depth_after + arity != o.depth_before + 1 {
                        return Some(("C08.P4.depth".into(), format!("{label}: operand depth {} -> {}, expected {}", o.depth_before, o.depth_after, o.depth_before + 1 - arity)));
                    }
                }
            }
            // whatever the host answered, the program goes on with the instruction that follows (matrix entries:
            // the operation sits at instruction 1 with two more behind it)
            if !o.beneath_ok {
                return Some(("C08.P10.operands-beneath-disturbed".into(), format!("{label}: the values that were pending beneath the operation's operands are not what they were")));
            }
            if o.status == Status::Ok && (!o.running || o.cursor_after != o.expected_cursor) {
                return Some((
                    "C08.P9.next-instruction".into(),
                    format!("{label}: after the deferred operation the cursor is at {} ({}), expected instruction {}", o.cursor_after, if o.running { "running" } else { "ended" }, o.expected_cursor),
                ));
            }
            if let Some(t) = absent_twin {
                if t.status != o.status || t.top != o.top || t.depth_after != o.depth_after {
                    return Some(("C08.P5.absent-differs-from-declining".into(), format!("{label}: absent {:?}/{:?}, declining {:?}/{:?}", t.status, t.top.as_ref().map(|v| v.short()), o.status, o.top.as_ref().map(|v| v.short()))));
                }
            }
        }
        "defined" | "defined-err" => {
            if !defer_calls.is_empty() {
                return Some(("C08.P7.defined-pair-offered-to-host".into(), format!("{label}: defer_op called {} time(s) for a combination the language defines", defer_calls.len())));
            }
        }
        _ => {}
    }
    None
}

fn matrix<D: SimData>(mode: HostMode, instr: Instruction, only: Option<(usize, usize)>, out: &mut Outcome, th: &mut Fnv) {
    let reps = representatives();
    let unary = is_unary(instr);
    let lefts: Vec<Option<&Val>> = if unary { vec![None] } else { reps.iter().map(Some).collect() };
    let mut entries = 0u64;
    for (li, l) in lefts.iter().enumerate() {
        for (ri, r) in reps.iter().enumerate() {
            if let Some((a, b)) = only {
                if li != a || ri != b {
                    continue;
                }
            }
            let label = format!("{:?} {} {} [{} host, {}]", instr, l.map(|v| v.short()).unwrap_or_else(|| "-".into()), r.short(), format!("{:?}", mode).to_lowercase(), D::KIND);
            let lt = l.map(|v| v.data_type());
            let rt = effective_right(instr, r);
            let (o, calls): (Result<Observed, String>, Option<Vec<HostCall>>) = if mode == HostMode::Absent {
                // shipped defaults: no resolver / op handler installed, NoOpCompanion
                if D::IS_BASIC {
                    let mut d = BasicGarnishData::<(), NoOpCompanion>::new(NoOpCompanion::new()).expect("basic");
                    (run_entry(&mut d, instr, *l, r, false), None)
                } else {
                    let mut d = SimpleGarnishData::new();
                    (run_entry(&mut d, instr, *l, r, false), None)
                }
            } else {
                let mut d = D::create(Host::new(script_for(mode)), &Knobs::default()).expect("world");
                if mode.after_failure() && !failed_offer_prelude(&mut d) {
                    out.violate("C08.P6.failing-host-ignored", format!("{label}: the host answered an offer made through defer_op with Err and the store returned Ok"));
                    return;
                }
                let o = run_entry(&mut d, instr, *l, r, mode == HostMode::DecliningCompacting);
                let log = d.host().log.clone();
                (o, Some(log))
            };
            let o = match o {
                Ok(o) => o,
                Err(_) => {
                    out.count("matrix_entries_setup_failed", 1);
                    continue;
                }
            };
            entries += 1;
            th.str(&format!("{:?}{:?}{}", o.status, o.top, o.depth_after));
            let mut st = Fnv::new();
            st.str(&format!("{:?}{:?}{:?}{:?}{:?}", instr, lt, rt, o.status, mode));
            if out.states.len() < 4096 {
                out.states.push(st.finish());
            }
            // P5: the absent run is compared with a declining run of the same entry
            let twin = if mode == HostMode::Absent {
                let mut d = D::create(Host::new(script_for(HostMode::Declining)), &Knobs::default()).expect("world");
                run_entry(&mut d, instr, *l, r, false).ok()
            } else {
                None
            };
            let verdict = if mode == HostMode::Absent {
                match &twin {
                    Some(t) => judge(instr, lt, rt, HostMode::Declining, t, None, Some(&o), &label).or_else(|| judge(instr, lt, rt, mode, &o, None, None, &label)),
                    None => judge(instr, lt, rt, mode, &o, None, None, &label),
                }
            } else {
                judge(instr, lt, rt, mode, &o, calls.as_deref(), None, &label)
            };
            if classify(instr, lt, rt) == Some("deferred") {
                out.count("deferred_entries", 1);
            } else {
                out.count("defined_entries", 1);
            }
            if let Some((inv, det)) = verdict {
                out.violate(&inv, format!("{} (pair {},{})", det, li, ri));
                out.count("matrix_entries", entries);
                return;
            }
        }
    }
    out.count("matrix_entries", entries);
    out.probe(match mode {
        HostMode::Absent => "matrix-host-absent",
        HostMode::Declining => "matrix-host-declining",
        HostMode::Accepting => "matrix-host-accepting",
        HostMode::AcceptingNested => "matrix-host-accepting-after-a-nested-run",
        HostMode::DecliningCompacting => "matrix-host-compacting-then-declining",
        HostMode::Failing => "matrix-host-failing",
        HostMode::DecliningAfterFailure => "matrix-host-declining-after-an-earlier-failed-callback",
        HostMode::AcceptingAfterFailure => "matrix-host-accepting-after-an-earlier-failed-callback",
        HostMode::DecliningReentering => "matrix-host-reentering-the-runtime-then-declining",
        HostMode::AcceptingReentering => "matrix-host-reentering-the-runtime-then-accepting",
    });
}

fn program<D: SimData>(mode: HostMode, src: &str, input: &Val, script: &HostScript, out: &mut Outcome, th: &mut Fnv) {
    let mut script = script.clone();
    script.defer_default = script_for(mode).defer_default;
    if mode.after_failure() {
        script.nth_override.insert(0, Answer::Fail);
    }
    script.leaves_cursor_after_apply = mode == HostMode::AcceptingNested;
    let mut d = D::create(Host::new(script), &Knobs::default()).expect("world");
    d.host_mut().recording = false;
    let built = match compile(&mut d, src) {
        BuildOutcome::Ok(b) => b,
        other => {
            out.abstain = Some(format!("program-{}", other.tag()));
            return;
        }
    };
    d.host_mut().recording = true;
    // SimpleGarnishData: a third of the programs run on a working copy of the store they were built into
    if !D::IS_BASIC && crate::rng::hash_str(src) % 3 == 0 {
        if let Some(Ok(copy)) = d.working_copy() {
            d = copy;
            out.probe("run-on-working-copy-of-the-store");
        }
    }
    // BasicGarnishData: what a host does after a build (its callback may compact the store)
    d.retain_now();
    if mode.after_failure() {
        if !failed_offer_prelude(&mut d) {
            out.violate("C08.P6.failing-host-ignored", "the host answered an offer made through defer_op with Err and the store returned Ok".to_string());
            return;
        }
        out.probe("program-run-after-an-earlier-failed-callback");
    }
    if start(&mut d, built.entry_jump, input).is_err() {
        out.abstain = Some("start-failed".into());
        return;
    }
    let mut judged = 0u64;
    for _ in 0..1500 {
        let Some((instr, _)) = current_instruction(&d) else { break };
        let ops = d.operands();
        let log_before = d.host().log.len();
        let (lt, rt, laddr, raddr) = if is_unary(instr) && !ops.is_empty() {
            let r = ops[ops.len() - 1];
            (None, d.get_data_type(r).ok(), r, r)
        } else if is_binary(instr) && ops.len() >= 2 {
            let (l, r) = (ops[ops.len() - 2], ops[ops.len() - 1]);
            let mut rt = d.get_data_type(r).ok();
            if instr == Instruction::ApplyType && rt == Some(GarnishDataType::Type) {
                rt = d.get_type(r).ok();
            }
            (d.get_data_type(l).ok(), rt, l, r)
        } else {
            (None, None, 0, 0)
        };
        let depth_before = d.get_register_len();
        let frames_before = d.frames().len();
        let pc = d.get_instruction_cursor();
        // for an operation the host will be offered: what is pending beneath its own operands
        let arity_now = if lt.is_some() { 2 } else { 1 };
        let beneath_before: Option<Vec<Val>> = match rt {
            Some(rt) if (is_unary(instr) || is_binary(instr)) && classify(instr, lt, rt) == Some("deferred") && ops.len() >= arity_now => {
                Some(ops[..ops.len() - arity_now].iter().map(|a| read_val(&d, *a)).collect())
            }
            _ => None,
        };
        let res = step(&mut d);
        th.str(res.tag());
        let status = match &res {
            StepResult::Running | StepResult::End => Status::Ok,
            StepResult::Err { unsupported: true, .. } => Status::ErrUnsupported,
            StepResult::Err { .. } => Status::ErrOther,
            StepResult::Panic(p) => Status::Panic(p.clone()),
        };
        if let Status::Panic(p) = &status {
            out.foreign_panic = Some(p.clone());
        }
        if status == Status::ErrUnsupported {
            out.violate("C08.P8.unsupported-types-code-escaped".into(), format!("program {:?}: executing {:?} on ({:?},{:?}) returned the 'unsupported operand types' code as Err", src, instr, lt, rt));
            return;
        }
        if let Some(rt) = rt {
            if (is_unary(instr) || is_binary(instr)) && classify(instr, lt, rt).is_some() {
                let depth_after = d.get_register_len();
                let top = if depth_after > 0 { d.get_register(depth_after - 1).map(|a| read_val(&d, a)) } else { None };
                // a call changes the frame: depth bookkeeping is only judged when no frame was pushed
                let same_frame = d.frames().len() == frames_before;
                let o = Observed { status: status.clone(), top, depth_before, depth_after: if same_frame { depth_after } else { depth_before + 1 - if lt.is_some() { 2 } else { 1 } }, laddr, raddr, cursor_after: d.get_instruction_cursor(), running: res == StepResult::Running, expected_cursor: pc + 1,
                    beneath_ok: match (&beneath_before, same_frame, &status) {
                        (Some(before), true, Status::Ok) => {
                            let now = d.operands();
                            now.len() >= before.len() && now[..before.len()].iter().map(|a| read_val(&d, *a)).collect::<Vec<_>>() == *before
                        }
                        _ => true,
                    },
                };
                let calls: Vec<HostCall> = d.host().log[log_before.min(d.host().log.len())..].to_vec();
                let label = format!("program {:?} step {:?}", src, instr);
                // the accepting host's marker is numbered by call order
                let mut verdict = judge(instr, lt, rt, mode, &o, Some(&calls), None, &label);
                if let Some((inv, _)) = &verdict {
                    if inv == "C08.P4.accepted-result-not-used" {
                        // unique markers count up; accept the marker this very call pushed
                        let gave = calls.iter().find_map(|c| if let HostCall::Defer { gave, .. } = c { gave.clone() } else { None });
                        if gave.is_some() && o.top == gave {
                            verdict = None;
                        }
                    }
                }
                judged += 1;
                let mut st = Fnv::new();
                st.str(&format!("p{:?}{:?}{:?}{:?}{:?}", instr, lt, rt, status, mode));
                out.state(st.finish());
                if classify(instr, lt, rt) == Some("deferred") {
                    out.count("deferred_steps_in_programs", 1);
                    out.probe("deferred-operation-inside-program");
                    if frames_before > 0 {
                        out.probe("deferred-operation-inside-nested-expression");
                    }
                }
                if let Some((inv, det)) = verdict {
                    out.violate(&inv, det);
                    return;
                }
            }
        }
        match res {
            StepResult::Running => {}
            _ => break,
        }
    }
    out.count("program_steps_judged", judged);
    if judged == 0 {
        out.abstain = Some("no-judged-step".into());
    }
}

impl Campaign for C08 {
    type Scenario = Sc08;
    fn prop(&self) -> &'static str {
        "C08"
    }
    fn id(&self) -> u64 {
        8
    }
    fn runs(&self, tier: Tier) -> u64 {
        match tier {
            Tier::Quick => 300_000,
            Tier::Thorough => 100_000_000,
        }
    }
    fn min_verdict_pct(&self) -> u64 {
        40
    }
    fn minimise_seeded(&self) -> bool {
        true
    }

    fn generate(&self, rng: &mut Rng, _tier: Tier, _index: u64) -> Sc08 {
        let basic = rng.chance(1, 2);
        let mode = *rng.pick(&[HostMode::Declining, HostMode::Declining, HostMode::Accepting, HostMode::Failing, HostMode::AcceptingNested, if basic { HostMode::DecliningCompacting } else { HostMode::Declining }, HostMode::DecliningAfterFailure, HostMode::AcceptingAfterFailure]);
        let budget = rng.range(2, 24);
        let mut cfg = GenCfg::full(budget);
        cfg.ident_leaf_pct = 50;
        cfg.w_arith = 14;
        cfg.w_bitwise = 8;
        cfg.w_access = 8;
        cfg.w_internal = 8;
        cfg.w_cast = 5;
        cfg.w_unary = 8;
        let keys = cfg.keys.clone();
        let mut g = Gen::new(rng, cfg);
        let prog = g.program();
        let src = g.print(&prog);
        let input = gen_input(rng, &keys);
        // expression values name jump entry 0 = the program's own entry: applying them recurses without bound
        let reps: Vec<Val> = representatives().into_iter().filter(|v| !matches!(v, Val::Expr(_)) && !matches!(v, Val::Partial(l, _) if matches!(**l, Val::Expr(_)))).collect();
        let mut script = HostScript::default();
        // identifiers resolve to values of every type, so that operators meet every operand kind
        for name in ["t1", "t2", "t3", "x1"] {
            script.resolve.insert(symbol_value(name), Answer::Provide(rng.pick(&reps).clone()));
        }
        script.resolve.insert(symbol_value("f1"), Answer::Decline);
        script.resolve_default = Some(Answer::Provide(rng.pick(&reps).clone()));
        Sc08::Program { basic, mode, src, input, script }
    }

    fn execute(&self, sc: &Sc08) -> Outcome {
        let mut out = Outcome::default();
        let mut th = Fnv::new();
        let mut sh = Fnv::new();
        match sc {
            Sc08::Matrix { basic, mode, instr, only } => {
                sh.str(&format!("matrix {} {:?} {}", basic, mode, instr));
                match instr_by_name(instr) {
                    Some(i) => {
                        if *basic {
                            matrix::<BasicW>(*mode, i, *only, &mut out, &mut th)
                        } else {
                            matrix::<SimpleW>(*mode, i, *only, &mut out, &mut th)
                        }
                    }
                    None => out.abstain = Some("unknown-instruction".into()),
                }
                out.nontrivial = true;
            }
            Sc08::Program { basic, mode, src, input, script } => {
                sh.str(src);
                sh.str(&format!("{:?}", mode));
                if *basic {
                    program::<BasicW>(*mode, src, input, script, &mut out, &mut th)
                } else {
                    program::<SimpleW>(*mode, src, input, script, &mut out, &mut th)
                }
                out.nontrivial = out.stats.get("deferred_steps_in_programs").copied().unwrap_or(0) > 0;
            }
        }
        if let Some(v) = &out.violation {
            th.str(&v.invariant);
        }
        out.trace_hash = th.finish();
        out.schedule_hash = sh.finish();
        out
    }

    fn shrink(&self, sc: &Sc08) -> Vec<Sc08> {
        match sc {
            Sc08::Matrix { basic, mode, instr, only: None } => {
                // find the failing pair: the detail ends with "(pair l,r)" — simply try all pairs lazily
                let n = representatives().len();
                let unary = instr_by_name(instr).map(is_unary).unwrap_or(false);
                let mut v = vec![];
                for l in 0..(if unary { 1 } else { n }) {
                    for r in 0..n {
                        v.push(Sc08::Matrix { basic: *basic, mode: *mode, instr: instr.clone(), only: Some((l, r)) });
                    }
                }
                v
            }
            Sc08::Matrix { .. } => vec![],
            Sc08::Program { basic, mode, src, input, script } => {
                let mut out = vec![];
                for cand in crate::c06::shrink_source(src) {
                    out.push(Sc08::Program { basic: *basic, mode: *mode, src: cand, input: input.clone(), script: script.clone() });
                }
                if *input != Val::Unit {
                    out.push(Sc08::Program { basic: *basic, mode: *mode, src: src.clone(), input: Val::Unit, script: script.clone() });
                }
                out
            }
        }
    }

    fn seeded(&self) -> Vec<Sc08> {
        // workload A: the complete matrix, in every run of the check
        let mut v = vec![];
        for basic in [false, true] {
            for mode in [HostMode::Absent, HostMode::Declining, HostMode::Accepting, HostMode::Failing, HostMode::AcceptingNested, HostMode::DecliningCompacting, HostMode::DecliningAfterFailure, HostMode::AcceptingAfterFailure, HostMode::DecliningReentering, HostMode::AcceptingReentering] {
                if mode == HostMode::DecliningCompacting && !basic {
                    continue;
                }
                for i in BINARY.iter().filter(|i| **i != Instruction::Invalid).chain(UNARY.iter()) {
                    v.push(Sc08::Matrix { basic, mode, instr: format!("{:?}", i), only: None });
                }
            }
        }
        v
    }

    fn haystack(&self, sc: &Sc08) -> String {
        match sc {
            Sc08::Matrix { basic, mode, instr, only } => format!("matrix instr={} impl={} host={:?} only={:?}", instr, if *basic { "basic" } else { "simple" }, mode, only),
            Sc08::Program { src, .. } => format!("<<{}>>", src),
        }
    }

    fn rule(&self) -> String {
        format!(
            "workload A (explicit scenarios, run completely on every invocation): {} binary and {} unary instructions x all ordered pairs of {} representative values covering every data type (empty, singleton, typical, nested) x hosts {{absent, declining, accepting, failing}} x {{SimpleGarnishData, BasicGarnishData}}; each entry is a fresh data object with the operands materialised through the data interface and the single instruction stepped once. workload B (seeded): generated programs whose identifiers the host resolves to values of every type, every operator step judged against the same table. Judged: exactly one defer_op call with the instruction and both operands in source order (P1,P2), declined/absent -> Ok, unit result, depth 1-arity (P3,P5), accepted -> the host's marker is the result (P4), failing callback -> Err (P6), defined pairs never offered (P7), the 'unsupported types' code never escapes (P8). distinct = distinct scenario; non-trivial = a matrix scenario, or a program run in which a deferred operation occurred",
            BINARY.iter().filter(|i| **i != Instruction::Invalid).count(),
            UNARY.len(),
            representatives().len()
        )
    }

    fn components(&self) -> Value {
        json!({"real": ["runtime ops", "SimpleGarnishData", "BasicGarnishData", "lexer/parser/builder (workload B)"], "stub": ["host defer_op / resolve callbacks (scripted, recording)"], "trusted_table": "spec/defined_ops.json — which (instruction, type pair) the language defines; extracted from the pinned runtime's match arms by the record mode, reviewed by hand, one hand correction (Access on CharList/ByteList/Range x Symbol)"})
    }

    fn assumptions(&self) -> Vec<String> {
        vec![
            "spec/defined_ops.json is the definition of 'the language defines no result' (the repository has no language specification)".into(),
            "only whether the host is offered the operation is judged, never what a defined operation returns (C01/C09/C11/C12)".into(),
            "errors on defined pairs are outside C08 and ignored".into(),
        ]
    }
}
