//! Workload generator: a typed AST over the core language, printed with explicit parentheses
//! around every compound operand, so that the real lexer/parser see unambiguous text. The oracles
//! never trust this AST: they consume the real parse tree or compare two real executions.

use crate::rng::Rng;

#[derive(Clone, Debug, PartialEq, Eq)]
pub enum G {
    /// pre-rendered atom: number, `$`, `$?`, `$!`, `()`, `:sym`, `"text"`, `'bytes'`
    Atom(String),
    Ident(String),
    Prefix(&'static str, Box<G>),
    Suffix(&'static str, Box<G>),
    Bin(&'static str, Box<G>, Box<G>),
    /// `e.prop` — e is `$`, an identifier or a group
    Access(Box<G>, String),
    SpaceList(Vec<G>),
    CommaList(Vec<G>),
    Nested(Box<G>),
    /// `c ?> a` / `c !> a`
    Cond(&'static str, Box<G>, Box<G>),
    /// `c1 ?> a1 |> c2 ?> a2 ... [|> default]`
    Chain(Vec<(&'static str, G, G)>, Option<Box<G>>),
    /// blank-line separated sub-expressions (top level or directly inside `{ }` only)
    Seq(Vec<G>),
    /// `value [body]`
    Side(Box<G>, Box<G>),
    /// `[body] value` — only ever the right operand of a binary operator (a block in front of the first value
    /// of a list or program is a shape the parser mishandles)
    PreSide(Box<G>, Box<G>),
    /// `^~ e` (generated only as an arm inside a nested expression)
    Reapply(Box<G>),
    PrefixApply(String, Box<G>),
    SuffixApply(Box<G>, String),
    InfixApply(Box<G>, String, Box<G>),
}

fn is_atomic(e: &G) -> bool {
    matches!(e, G::Atom(_) | G::Ident(_) | G::Nested(_) | G::PreSide(_, _))
}

impl G {
    pub fn atom(s: &str) -> G {
        G::Atom(s.to_string())
    }
    pub fn num(n: i64) -> G {
        if n < 0 {
            G::Prefix("--", Box::new(G::Atom((-n).to_string())))
        } else {
            G::Atom(n.to_string())
        }
    }
    pub fn ident(s: &str) -> G {
        G::Ident(s.to_string())
    }
    pub fn bin(op: &'static str, l: G, r: G) -> G {
        G::Bin(op, Box::new(l), Box::new(r))
    }

    pub fn nodes(&self) -> usize {
        match self {
            G::Atom(_) | G::Ident(_) => 1,
            G::Prefix(_, e) | G::Suffix(_, e) | G::Nested(e) | G::Reapply(e) | G::PrefixApply(_, e) | G::SuffixApply(e, _) | G::Access(e, _) => 1 + e.nodes(),
            G::Bin(_, l, r) | G::Cond(_, l, r) | G::Side(l, r) | G::PreSide(l, r) | G::InfixApply(l, _, r) => 1 + l.nodes() + r.nodes(),
            G::SpaceList(v) | G::CommaList(v) | G::Seq(v) => 1 + v.iter().map(|e| e.nodes()).sum::<usize>(),
            G::Chain(arms, d) => 1 + arms.iter().map(|(_, c, a)| c.nodes() + a.nodes()).sum::<usize>() + d.as_ref().map(|e| e.nodes()).unwrap_or(0),
        }
    }

    /// operand position: atoms bare, everything else in a group
    fn op(&self) -> String {
        if is_atomic(self) {
            self.top()
        } else {
            match self {
                // a Seq can never be grouped: wrap it in a nested expression applied to `$`
                G::Seq(_) => format!("({{ {} }} <~ $)", self.top()),
                _ => format!("({})", self.top()),
            }
        }
    }

    /// top-level / directly inside `{ }` or `( )`: printed bare
    pub fn top(&self) -> String {
        match self {
            G::Atom(s) => s.clone(),
            G::Ident(s) => s.clone(),
            G::Prefix(op, e) => {
                // `--5` fine; `-- --5` needs the group so that the lexer does not merge operator characters
                format!("{}{}", op, e.op())
            }
            G::Suffix(op, e) => {
                // `3.|` / `3._` would lex as a decimal: group numeric atoms
                match &**e {
                    G::Atom(a) if a.chars().last().map(|c| c.is_ascii_digit()).unwrap_or(false) => format!("({}){}", a, op),
                    _ => format!("{}{}", e.op(), op),
                }
            }
            G::Bin(op, l, r) => format!("{} {} {}", l.op(), op, r.op()),
            G::Access(e, p) => format!("{}.{}", e.op(), p),
            G::SpaceList(items) => {
                if items.is_empty() {
                    "(,)".to_string()
                } else if items.len() == 1 {
                    format!("{},", items[0].op())
                } else {
                    items.iter().map(|i| i.op()).collect::<Vec<_>>().join(" ")
                }
            }
            G::CommaList(items) => {
                if items.is_empty() {
                    "(,)".to_string()
                } else if items.len() == 1 {
                    format!("{},", items[0].op())
                } else {
                    items.iter().map(|i| i.op()).collect::<Vec<_>>().join(", ")
                }
            }
            G::Nested(e) => format!("{{ {} }}", e.top()),
            G::Cond(op, c, a) => format!("{} {} {}", c.op(), op, a.arm()),
            G::Chain(arms, default) => {
                let mut parts: Vec<String> = arms.iter().map(|(op, c, a)| format!("{} {} {}", c.op(), op, a.arm())).collect();
                if let Some(d) = default {
                    parts.push(d.arm());
                }
                parts.join(" |> ")
            }
            G::Seq(items) => items.iter().map(|i| i.seq_item()).collect::<Vec<_>>().join("\n\n"),
            G::Side(v, body) => format!("{} [{}]", v.op(), body.top()),
            G::PreSide(body, v) => format!("[{}] {}", body.top(), v.op()),
            G::Reapply(e) => format!("^~ {}", e.op()),
            G::PrefixApply(name, e) => format!("{}` {}", name, e.op()),
            G::SuffixApply(e, name) => format!("{} `{}", e.op(), name),
            G::InfixApply(l, name, r) => format!("{} `{}` {}", l.op(), name, r.op()),
        }
    }

    /// binding strength the parser gives this node (its own priority table; smaller binds tighter)
    fn prio(&self) -> u32 {
        match self {
            G::Atom(_) | G::Ident(_) | G::Nested(_) | G::Side(_, _) | G::PreSide(_, _) => 10,
            G::Access(_, _) => 30,
            G::Suffix(op, _) => match *op {
                "~~" => 40,
                _ => 60,
            },
            G::Prefix(op, _) => match *op {
                "_." => 50,
                "#" => 69,
                "!!" | "??" => 400,
                _ => 75,
            },
            G::Bin(op, _, _) => match *op {
                "~#" => 70,
                "**" => 80,
                "*" | "/" | "//" | "%" => 90,
                "+" | "-" => 100,
                "<<" | ">>" => 110,
                "&" => 111,
                "^" => 112,
                "|" => 113,
                ".." | ">.." | "..<" | ">..<" => 200,
                "=" => 210,
                "~" => 230,
                "<>" => 240,
                "<" | "<=" | ">" | ">=" => 300,
                "==" | "!=" | "#=" => 400,
                "&&" => 410,
                "^^" => 420,
                "||" => 430,
                "<~" | "~>" => 550,
                _ => 999,
            },
            G::PrefixApply(_, _) => 150,
            G::SuffixApply(_, _) => 151,
            G::InfixApply(_, _, _) => 152,
            // `(,)` prints with its own brackets; a one-element list prints as `x,`
            G::SpaceList(i) | G::CommaList(i) if i.is_empty() => 10,
            G::SpaceList(i) | G::CommaList(i) if i.len() == 1 => 900,
            G::SpaceList(_) => 220,
            G::Reapply(_) => 600,
            G::Cond(_, _, _) => 700,
            G::Chain(_, _) => 800,
            G::CommaList(_) => 900,
            G::Seq(_) => 1000,
        }
    }

    /// operand of a construct with priority `p`: bare when it binds tighter (or equally, on the side the
    /// construct associates to), bracketed otherwise
    fn opm(&self, p: u32, allow_equal: bool) -> String {
        let q = self.prio();
        if matches!(self, G::Seq(_)) {
            return self.op();
        }
        if q < p || (allow_equal && q == p) {
            self.min()
        } else {
            format!("({})", self.min())
        }
    }

    /// the same program printed with only the brackets the priority table requires, so that operators sit
    /// directly under each other in the parse tree (no group nodes in between). Unary operators, access,
    /// the identifier-apply forms and one-element lists keep their bracketed operands.
    pub fn min(&self) -> String {
        match self {
            G::Bin(op, l, r) => {
                let p = self.prio();
                if *op == "=" {
                    // pairs group right-to-left
                    format!("{} {} {}", l.opm(p, false), op, r.opm(p, true))
                } else {
                    format!("{} {} {}", l.opm(p, true), op, r.opm(p, false))
                }
            }
            G::SpaceList(items) if items.len() >= 2 => items.iter().map(|i| i.opm(220, false)).collect::<Vec<_>>().join(" "),
            G::CommaList(items) if items.len() >= 2 => items.iter().map(|i| i.opm(900, false)).collect::<Vec<_>>().join(", "),
            G::Nested(e) => format!("{{ {} }}", e.min()),
            // `?>` / `!>` group left-to-right: a conditional in condition position needs no brackets
            G::Cond(op, c, a) => format!("{} {} {}", c.opm(700, true), op, a.opm(700, false)),
            G::Chain(arms, default) => {
                let mut parts: Vec<String> = arms.iter().map(|(op, c, a)| format!("{} {} {}", c.opm(700, true), op, a.opm(700, false))).collect();
                if let Some(d) = default {
                    parts.push(d.opm(700, false));
                }
                parts.join(" |> ")
            }
            G::Seq(items) => items.iter().map(|i| if matches!(i, G::Seq(_)) { i.op() } else { i.min() }).collect::<Vec<_>>().join("\n\n"),
            G::Side(v, body) => format!("{} [{}]", v.op(), body.min()),
            G::PreSide(body, v) => format!("[{}] {}", body.min(), v.op()),
            G::Reapply(e) => format!("^~ {}", e.opm(600, false)),
            G::Prefix(op, e) if *op == "!!" || *op == "??" => format!("{}{}", op, e.opm(400, true)),
            // everything else as in the fully bracketed form
            _ => self.top(),
        }
    }

    fn arm(&self) -> String {
        match self {
            G::Reapply(_) => self.top(),
            _ => self.op(),
        }
    }

    fn seq_item(&self) -> String {
        match self {
            G::Seq(_) => self.op(),
            _ => self.top(),
        }
    }

    pub fn idents(&self, out: &mut Vec<String>) {
        match self {
            G::Atom(_) => {}
            G::Ident(s) => out.push(s.clone()),
            G::Prefix(_, e) | G::Suffix(_, e) | G::Nested(e) | G::Reapply(e) | G::Access(e, _) => e.idents(out),
            G::PrefixApply(n, e) | G::SuffixApply(e, n) => {
                out.push(n.clone());
                e.idents(out)
            }
            G::InfixApply(l, n, r) => {
                out.push(n.clone());
                l.idents(out);
                r.idents(out)
            }
            G::Bin(_, l, r) | G::Cond(_, l, r) | G::Side(l, r) | G::PreSide(l, r) => {
                l.idents(out);
                r.idents(out)
            }
            G::SpaceList(v) | G::CommaList(v) | G::Seq(v) => v.iter().for_each(|e| e.idents(out)),
            G::Chain(arms, d) => {
                for (_, c, a) in arms {
                    c.idents(out);
                    a.idents(out);
                }
                if let Some(d) = d {
                    d.idents(out)
                }
            }
        }
    }
}

/// Which constructs a campaign wants, as relative weights (0 = never).
#[derive(Clone, Debug)]
pub struct GenCfg {
    pub budget: usize,
    /// identifier pool; with `fresh_idents` every occurrence gets a new name `i<k>` instead
    pub idents: Vec<String>,
    pub fresh_idents: bool,
    pub keys: Vec<String>,
    /// probability (percent) that a leaf is an identifier rather than a literal
    pub ident_leaf_pct: u32,
    pub w_arith: u32,
    pub w_bitwise: u32,
    pub w_cmp: u32,
    pub w_eq: u32,
    pub w_logic: u32,
    pub w_pair: u32,
    pub w_list: u32,
    pub w_access: u32,
    pub w_internal: u32,
    pub w_nested: u32,
    pub w_cond: u32,
    pub w_chain: u32,
    pub w_seq: u32,
    pub w_side: u32,
    pub w_loop: u32,
    pub w_fixapply: u32,
    pub w_range: u32,
    pub w_concat: u32,
    pub w_symlist: u32,
    pub w_cast: u32,
    pub w_partial: u32,
    pub w_typeof: u32,
    pub w_text: u32,
    pub w_float: u32,
    pub w_unary: u32,
    /// chains may end without a default arm (reaches defect D1 when no arm matches)
    pub open_chains: bool,
    pub max_loop: usize,
    pub boundary_literals: bool,
}

impl GenCfg {
    /// the core language the reference evaluator models
    pub fn core(budget: usize) -> GenCfg {
        GenCfg {
            budget,
            idents: vec!["t1".into(), "t2".into(), "t3".into(), "f1".into(), "f2".into(), "x1".into()],
            fresh_idents: false,
            keys: vec!["ka".into(), "kb".into(), "kc".into()],
            ident_leaf_pct: 40,
            w_arith: 10,
            w_bitwise: 2,
            w_cmp: 4,
            w_eq: 4,
            w_logic: 8,
            w_pair: 5,
            w_list: 8,
            w_access: 5,
            w_internal: 3,
            w_nested: 8,
            w_cond: 8,
            w_chain: 6,
            w_seq: 4,
            w_side: 4,
            w_loop: 3,
            w_fixapply: 3,
            w_range: 0,
            w_concat: 0,
            w_symlist: 0,
            w_cast: 0,
            w_partial: 0,
            w_typeof: 0,
            w_text: 3,
            w_float: 0,
            w_unary: 4,
            open_chains: false,
            max_loop: 6,
            boundary_literals: false,
        }
    }

    /// everything the language has (minus the shapes listed in DESIGN §3.7)
    pub fn full(budget: usize) -> GenCfg {
        let mut c = GenCfg::core(budget);
        c.w_range = 4;
        c.w_concat = 4;
        c.w_symlist = 3;
        c.w_cast = 3;
        c.w_partial = 2;
        c.w_typeof = 2;
        c.w_float = 2;
        c.w_bitwise = 4;
        c
    }

    /// value-graph builders for the compaction campaign: lists with keys, pairs, text, symbol lists,
    /// concatenations, slices, loops that allocate
    pub fn heapy(budget: usize) -> GenCfg {
        let mut c = GenCfg::full(budget);
        c.w_list = 16;
        c.w_pair = 12;
        c.w_text = 8;
        c.w_symlist = 6;
        c.w_concat = 8;
        c.w_range = 5;
        c.w_loop = 8;
        c.w_nested = 10;
        c.w_access = 8;
        c.max_loop = 12;
        c
    }
}

pub struct Gen<'a> {
    pub rng: &'a mut Rng,
    pub cfg: GenCfg,
    fresh: usize,
    pub used_idents: Vec<String>,
    depth_nested: usize,
    /// C20: leaves may render one of the program's own symbol literals as text (`:ka ~# ""`)
    pub render_own: bool,
    /// `$` is known to be unit, a symbol-keyed pair or a list of symbol-keyed pairs here
    dollar_keyed: bool,
    /// list constructors are disabled (the value may become `$`, and SimpleGarnishData cannot look
    /// identifiers up in a list that has unkeyed items — a C16 matter this generator stays away from)
    no_list: u32,
    /// inside the body of a counted loop a bare `$` would copy the whole loop state into the next state:
    /// two of them double it per iteration (exponential value trees). Disallowed there.
    no_dollar: u32,
    /// `$` is a concatenation of this many symbol-keyed pairs (0 = it is not)
    dollar_concat: usize,
    /// allow the body-less nested expression `{ }` as a value (C20: its expression constant must stay
    /// inside the tenant's own jump range)
    pub empty_nested: bool,
}

const WORDS: [&str; 8] = ["a", "abc", "hello", "x y", "Zed", "q1", "lorem", "w"];

impl<'a> Gen<'a> {
    pub fn new(rng: &'a mut Rng, cfg: GenCfg) -> Self {
        Gen { rng, cfg, fresh: 0, used_idents: vec![], depth_nested: 0, dollar_keyed: true, no_list: 0, no_dollar: 0, dollar_concat: 0, empty_nested: false, render_own: false }
    }

    /// tell the generator what the run's input value will look like
    pub fn set_input_keyed(&mut self, keyed: bool) {
        self.dollar_keyed = keyed;
    }

    /// print a generated program: half of the time fully bracketed, half of the time with only the
    /// brackets the priority table requires
    pub fn print(&mut self, g: &G) -> String {
        let s = if self.rng.chance(1, 2) { g.min() } else { g.top() };
        // a fifth of the programs carry annotations (`@name` between tokens, a `@@` line in front): the parser
        // keeps them as detached nodes the builder has to skip; they never change what a program does
        if self.rng.chance(1, 5) {
            annotate(&s, self.rng, 12)
        } else {
            s
        }
    }

    pub fn program(&mut self) -> G {
        let b = self.cfg.budget;
        if self.cfg.w_seq > 0 && self.rng.chance(self.cfg.w_seq, 40) {
            self.seq(b)
        } else {
            self.expr(b)
        }
    }

    fn ident(&mut self) -> G {
        let name = if self.cfg.fresh_idents {
            self.fresh += 1;
            format!("i{}", self.fresh)
        } else {
            self.rng.pick(&self.cfg.idents).clone()
        };
        self.used_idents.push(name.clone());
        G::Ident(name)
    }

    fn key(&mut self) -> String {
        self.rng.pick(&self.cfg.keys).clone()
    }

    pub fn literal(&mut self) -> G {
        if self.empty_nested && self.rng.chance(1, 25) {
            return G::atom("{ }");
        }
        let c = &self.cfg;
        let w = [10u32, 2, 2, 2, 3, c.w_text, c.w_float, if c.boundary_literals { 6 } else { 0 }, if c.w_text > 0 { 1 } else { 0 }];
        match self.rng.weighted(&w) {
            0 => G::num(self.rng.range_i(0, 12)),
            1 => G::atom("()"),
            2 => G::atom("$?"),
            3 => G::atom("$!"),
            4 => G::Atom(format!(":{}", self.key())),
            5 => G::Atom(format!("\"{}\"", self.rng.pick(&WORDS))),
            6 => G::Atom(format!("{}.{}", self.rng.range_i(0, 9), self.rng.range_i(1, 99))),
            7 => self.boundary_literal(),
            _ => G::Atom(format!("'{}'", self.rng.pick(&["a", "bc", "xyz"]))),
        }
    }


    fn boundary_literal(&mut self) -> G {
        let opts: [&str; 24] = [
            "2147483647",
            "2147483646",
            "--2147483647",
            "(--2147483647 - 1)",
            "31",
            "32",
            "33",
            "--1",
            "1073741824",
            "65536",
            "46341",
            "0",
            "1",
            "1.5",
            "0.0",
            "1e308",
            "179769313486231570000000000000000000000000000000000000000000000000000000000000000000000000000000000000000000000000000000000000000000000000000000000000000000000000000000000000000000000000000000000000000000000000000000000000000000000000000000000000000000000000000000000000000000000000000000000000000000000.0",
            "0.000000000000000000000000000000000000000000000001",
            "\"\"",
            "\"é\"",
            "\"日本語\"",
            "\"a😀b\"",
            "'x'",
            "'\u{e9}'",
        ];
        G::Atom(self.rng.pick(&opts).to_string())
    }

    fn leaf(&mut self) -> G {
        if self.rng.chance(self.cfg.ident_leaf_pct, 100) {
            self.ident()
        } else if self.rng.chance(1, 4) && self.no_dollar == 0 {
            G::atom("$")
        } else {
            self.literal()
        }
    }

    fn split(&mut self, budget: usize) -> (usize, usize) {
        let b = budget.saturating_sub(1);
        let l = self.rng.range(0, b);
        (l.max(1), (b - l).max(1))
    }

    /// an expression whose value is allowed to become `$`: a keyed literal, or a list-free expression.
    /// returns (expr, is_keyed)
    fn dollar_candidate(&mut self, budget: usize) -> (G, bool) {
        if self.cfg.w_concat > 0 && self.rng.chance(1, 6) {
            if self.rng.chance(1, 3) {
                return (self.mixed_concat_slice(budget), true);
            }
            return (self.keyed_concat(budget).0, true);
        }
        match self.rng.below(5) {
            0 => (G::atom("()"), true),
            1 => {
                let k = self.key();
                (G::bin("=", G::Atom(format!(":{}", k)), self.scalar(budget.saturating_sub(2).max(1))), true)
            }
            2 => (self.keyed_list(budget), true),
            _ => (self.scalar(budget), false),
        }
    }

    fn keyed_list(&mut self, budget: usize) -> G {
        let mut ks = self.cfg.keys.clone();
        self.rng.shuffle(&mut ks);
        let n = self.rng.range(1, ks.len().min(3));
        let each = (budget.saturating_sub(1) / n).saturating_sub(2).max(1);
        let items: Vec<G> = ks[..n].iter().map(|k| G::bin("=", G::Atom(format!(":{}", k)), self.expr(each))).collect();
        if items.len() == 1 {
            G::CommaList(items)
        } else if self.rng.chance(1, 2) {
            G::SpaceList(items)
        } else {
            G::CommaList(items)
        }
    }

    /// `(:ka = e) <> (:kb = e) [<> (:kc = e)]`: a concatenation of keyed pairs, and how many parts it has
    fn keyed_concat(&mut self, budget: usize) -> (G, usize) {
        let mut ks = self.cfg.keys.clone();
        self.rng.shuffle(&mut ks);
        let n = self.rng.range(2, ks.len().min(4));
        let each = (budget.saturating_sub(1) / n).saturating_sub(2).max(1);
        let mut parts: Vec<G> = ks[..n].iter().map(|k| G::bin("=", G::Atom(format!(":{}", k)), self.scalar(each))).collect();
        let mut cur = parts.remove(0);
        for p in parts {
            cur = G::bin("<>", cur, p);
        }
        (cur, n)
    }

    /// a slice of a concatenation in which keyed pairs and plain values alternate: `((:ka = e) <> 5 <> (:kb = e) <> 7) <~ (a..b)`
    fn mixed_concat_slice(&mut self, budget: usize) -> G {
        let mut ks = self.cfg.keys.clone();
        self.rng.shuffle(&mut ks);
        let n = self.rng.range(3, 5);
        let each = (budget.saturating_sub(2) / n).saturating_sub(2).max(1);
        let mut parts: Vec<G> = vec![];
        let mut k = 0;
        for i in 0..n {
            if (i % 2 == 0 || self.rng.chance(1, 3)) && k < ks.len() {
                parts.push(G::bin("=", G::Atom(format!(":{}", ks[k])), self.scalar(each)));
                k += 1;
            } else {
                parts.push(G::num(self.rng.range_i(0, 9)));
            }
        }
        let mut cur = parts.remove(0);
        for p in parts {
            cur = G::bin("<>", cur, p);
        }
        let a = self.rng.range_i(0, 2);
        let b = a + self.rng.range_i(0, n as i64 - 1);
        G::bin("<~", cur, G::bin("..", G::num(a), G::num(b)))
    }

    /// right operand of a binary operator; now and then a leaf with a side-effect block in front of it
    fn right_operand(&mut self, budget: usize) -> G {
        if self.cfg.w_side > 0 && budget >= 2 && self.rng.chance(1, 10) {
            let body = self.expr(budget - 1);
            // the value behind the block is an identifier or a number: in front of a nested expression `{ .. }` the
            // builder loses the expression value (finding D28)
            let v = if self.rng.chance(self.cfg.ident_leaf_pct, 100) { self.ident() } else { G::num(self.rng.range_i(0, 12)) };
            return G::PreSide(Box::new(body), Box::new(v));
        }
        self.expr(budget)
    }

    /// list-free expression
    fn scalar(&mut self, budget: usize) -> G {
        self.no_list += 1;
        let e = self.expr(budget);
        self.no_list -= 1;
        e
    }

    pub fn seq(&mut self, budget: usize) -> G {
        let n = self.rng.range(2, 3);
        let each = (budget / n).max(1);
        let saved = self.dollar_keyed;
        let mut items = vec![];
        for i in 0..n {
            if i + 1 < n {
                let (e, keyed) = self.dollar_candidate(each);
                items.push(e);
                self.dollar_keyed = keyed;
            } else {
                items.push(self.expr(each));
            }
        }
        self.dollar_keyed = saved;
        G::Seq(items)
    }

    pub fn expr(&mut self, budget: usize) -> G {
        if budget <= 1 {
            return self.leaf();
        }
        let mut c = self.cfg.clone();
        let in_nested = self.depth_nested > 0;
        if self.no_list > 0 {
            c.w_list = 0;
            c.w_symlist = 0;
            c.w_concat = 0;
            c.w_range = 0;
            c.w_cast = 0;
            c.w_partial = 0;
            c.w_fixapply = 0;
        }
        if !self.dollar_keyed {
            // `$.key` on a scalar `$` asks SimpleGarnishData to merge a number into a symbol list,
            // which it cannot do; property access is generated on keyed targets only
        }
        let w = [
            c.w_arith,                                 // 0
            c.w_bitwise,                               // 1
            c.w_cmp,                                   // 2
            c.w_eq,                                    // 3
            c.w_logic,                                 // 4
            c.w_pair,                                  // 5
            c.w_list,                                  // 6
            c.w_access,                                // 7
            c.w_internal,                              // 8
            c.w_nested,                                // 9
            c.w_cond,                                  // 10
            c.w_chain,                                 // 11
            c.w_side,                                  // 12
            if budget >= 6 { c.w_loop } else { 0 },    // 13
            c.w_fixapply,                              // 14
            c.w_range,                                 // 15
            c.w_concat,                                // 16
            c.w_symlist,                               // 17
            c.w_cast,                                  // 18
            c.w_partial,                               // 19
            c.w_typeof,                                // 20
            c.w_unary,                                 // 21
            if in_nested && budget >= 4 { c.w_seq } else { 0 }, // 22 (seq inside a nested expression)
            3,                                         // 23 leaf
            if self.render_own { 2 } else { 0 },       // 24 own symbol literal rendered as text
        ];
        match self.rng.weighted(&w) {
            0 => {
                let op = *self.rng.pick(&["+", "-", "*", "/", "//", "%", "**"]);
                let (l, r) = self.split(budget);
                let le = self.expr(l);
                G::bin(op, le, self.right_operand(r))
            }
            1 => {
                if self.rng.chance(1, 5) {
                    G::Prefix("!", Box::new(self.expr(budget - 1)))
                } else {
                    let op = *self.rng.pick(&["&", "|", "^", "<<", ">>"]);
                    let (l, r) = self.split(budget);
                    G::bin(op, self.expr(l), self.expr(r))
                }
            }
            2 => {
                let op = *self.rng.pick(&["<", "<=", ">", ">="]);
                let (l, r) = self.split(budget);
                let le = self.expr(l);
                G::bin(op, le, self.right_operand(r))
            }
            3 => {
                let op = *self.rng.pick(&["==", "!=", "=="]);
                let (l, r) = self.split(budget);
                let le = self.expr(l);
                G::bin(op, le, self.right_operand(r))
            }
            4 => match self.rng.below(5) {
                0 => G::Prefix("!!", Box::new(self.expr(budget - 1))),
                1 => G::Prefix("??", Box::new(self.expr(budget - 1))),
                k => {
                    let op = ["&&", "||", "^^"][k - 2];
                    let (l, r) = self.split(budget);
                    G::bin(op, self.expr(l), self.expr(r))
                }
            },
            5 => {
                let (_, r) = self.split(budget);
                let k = if self.rng.chance(3, 4) { G::Atom(format!(":{}", self.key())) } else { self.expr(2) };
                G::bin("=", k, self.expr(r))
            }
            6 => {
                let n = self.rng.range(0, 4.min(budget));
                let each = (budget.saturating_sub(1) / n.max(1)).max(1);
                let keyed = self.rng.chance(1, 3);
                let items: Vec<G> = (0..n)
                    .map(|_| {
                        if keyed {
                            let k = self.key();
                            G::bin("=", G::Atom(format!(":{}", k)), self.expr(each.saturating_sub(1).max(1)))
                        } else {
                            self.expr(each)
                        }
                    })
                    .collect();
                if self.rng.chance(1, 2) {
                    G::SpaceList(items)
                } else {
                    G::CommaList(items)
                }
            }
            7 => {
                // property access: on `$` when it is known to be keyed, else on a keyed list (or concatenation) literal
                if self.dollar_concat > 0 && self.rng.chance(1, 2) {
                    let i = self.rng.below(self.dollar_concat);
                    G::Access(Box::new(G::atom("$")), i.to_string())
                } else if self.dollar_keyed && self.rng.chance(1, 2) {
                    G::Access(Box::new(G::atom("$")), self.key())
                } else if c.w_concat > 0 && self.rng.chance(1, 3) {
                    let k = self.key();
                    let target = if self.rng.chance(1, 3) { self.mixed_concat_slice(budget - 1) } else { self.keyed_concat(budget - 1).0 };
                    G::Access(Box::new(target), k)
                } else {
                    let k = self.key();
                    let target = self.keyed_list(budget - 1);
                    G::Access(Box::new(target), k)
                }
            }
            8 => {
                let e = self.expr(budget - 1);
                match self.rng.below(3) {
                    0 => G::Prefix("_.", Box::new(e)),
                    1 => G::Suffix("._", Box::new(e)),
                    _ => G::Suffix(".|", Box::new(e)),
                }
            }
            9 => {
                // nested expression, applied in one of the three ways (or left as a value)
                let (b, a) = self.split(budget);
                let form = self.rng.below(6);
                let mut concat_parts = 0;
                let (arg, keyed) = match form {
                    3 => (G::atom("()"), true),
                    5 => (G::atom("()"), false),
                    _ => {
                        if c.w_concat > 0 && self.rng.chance(1, 8) {
                            let (g, n) = self.keyed_concat(a);
                            concat_parts = n;
                            (g, true)
                        } else {
                            self.dollar_candidate(a)
                        }
                    }
                };
                let saved = self.dollar_keyed;
                let saved_concat = self.dollar_concat;
                self.dollar_concat = concat_parts;
                self.dollar_keyed = keyed;
                self.depth_nested += 1;
                let body = if c.w_seq > 0 && b >= 4 && self.rng.chance(1, 4) { self.seq(b) } else { self.expr(b) };
                self.depth_nested -= 1;
                self.dollar_keyed = saved;
                self.dollar_concat = saved_concat;
                let f = G::Nested(Box::new(body));
                match form {
                    0 | 1 | 4 => G::bin("<~", f, arg),
                    2 => G::bin("~>", arg, f),
                    3 => G::Suffix("~~", Box::new(f)),
                    _ => f,
                }
            }
            10 => {
                let op = *self.rng.pick(&["?>", "!>"]);
                let (l, r) = self.split(budget);
                G::Cond(op, Box::new(self.expr(l)), Box::new(self.expr(r)))
            }
            11 => {
                let n = self.rng.range(1, 3);
                let each = (budget.saturating_sub(1) / (2 * n + 1)).max(1);
                let arms = (0..n)
                    .map(|_| {
                        let op = *self.rng.pick(&["?>", "?>", "!>"]);
                        (op, self.expr(each), self.expr(each))
                    })
                    .collect();
                let default = if c.open_chains && self.rng.chance(1, 3) { None } else { Some(Box::new(self.expr(each))) };
                if n == 1 && default.is_none() {
                    // a one-arm chain without default is just a conditional
                    let mut arms: Vec<(&'static str, G, G)> = arms;
                    let (op, c, a) = arms.remove(0);
                    G::Cond(op, Box::new(c), Box::new(a))
                } else {
                    G::Chain(arms, default)
                }
            }
            12 => {
                // the value a side-effect block is attached to is always an atom: a block after a
                // closing bracket makes the parser drop the bracketed value (known finding, C06)
                let v = self.leaf();
                G::Side(Box::new(v), Box::new(self.expr(budget - 1)))
            }
            13 => self.counted_loop(budget),
            14 => {
                let name = self.fix_name();
                match self.rng.below(3) {
                    0 => G::PrefixApply(name, Box::new(self.expr(budget - 1))),
                    1 => G::SuffixApply(Box::new(self.expr(budget - 1)), name),
                    _ => {
                        let (l, r) = self.split(budget);
                        G::InfixApply(Box::new(self.expr(l)), name, Box::new(self.expr(r)))
                    }
                }
            }
            15 => {
                // ranges and slices
                let a = self.rng.range_i(0, 3);
                let b = a + self.rng.range_i(0, 3);
                let op = *self.rng.pick(&["..", "..", ">..", "..<", ">..<"]);
                let range = G::bin(op, G::num(a), G::num(b));
                if self.rng.chance(1, 2) {
                    range
                } else {
                    let target = match self.rng.below(3) {
                        0 => G::SpaceList((0..self.rng.range(2, 5)).map(|_| self.leaf()).collect()),
                        1 => G::Atom(format!("\"{}\"", self.rng.pick(&WORDS))),
                        _ => G::Atom(format!("'{}'", self.rng.pick(&["abcde", "xyz"]))),
                    };
                    G::bin("<~", target, range)
                }
            }
            16 => {
                let (l, r) = self.split(budget);
                G::bin("<>", self.expr(l), self.expr(r))
            }
            17 => {
                // symbol list literal `:a.b.c`
                let n = self.rng.range(2, 4);
                let mut s = format!(":{}", self.key());
                for _ in 1..n {
                    s.push('.');
                    s.push_str(&self.key());
                }
                G::Atom(s)
            }
            18 => {
                // `"a".0` is a Char value, `'a'.0` a Byte value: casts that have no result for most numbers
                let target = *self.rng.pick(&["\"\"", "'x'", "0", "(,)", ":s", "#0", "#\"\"", "$?", "()", "(\"a\".0)", "('a'.0)", "(\"a\".0)", "('a'.0)", "1.5"]);
                G::bin("~#", self.expr(budget - 1), G::Atom(target.to_string()))
            }
            19 => {
                let (l, r) = self.split(budget);
                let saved = self.dollar_keyed;
                self.dollar_keyed = false;
                self.depth_nested += 1;
                let body = self.scalar(l);
                self.depth_nested -= 1;
                self.dollar_keyed = saved;
                let p = G::bin("~", G::Nested(Box::new(body)), self.expr(r));
                // a partial is called with an argument, with the empty apply, or left as a value
                match self.rng.below(3) {
                    0 => G::bin("<~", p, self.leaf()),
                    1 => G::Suffix("~~", Box::new(p)),
                    _ => p,
                }
            }
            20 => {
                if self.rng.chance(1, 2) {
                    G::Prefix("#", Box::new(self.expr(budget - 1)))
                } else {
                    let (l, r) = self.split(budget);
                    G::bin("#=", self.expr(l), self.expr(r))
                }
            }
            21 => {
                let op = *self.rng.pick(&["--", "++"]);
                G::Prefix(op, Box::new(self.expr(budget - 1)))
            }
            22 => self.seq(budget),
            24 => {
                // a symbol the program itself spells out, rendered as text: its name comes from the symbol-name
                // table, where this program's own build has put it whatever else the data object holds
                let k = self.key();
                let k2 = self.key();
                let n = self.rng.below(9);
                let target = match self.rng.below(4) {
                    0 => format!(":{}", k),
                    1 => format!("(:{} = {})", k, n),
                    2 => format!(":{}.{}", k, k2),
                    _ => format!("(:{}, {})", k, n),
                };
                // in its own brackets: next to other list items an un-bracketed cast would take the whole list as its
                // operand (and a list may hold expression values, whose text is a jump-table index)
                G::Atom(format!("({} ~# \"\")", target))
            }
            _ => self.leaf(),
        }
    }

    fn fix_name(&mut self) -> String {
        let name = if self.cfg.fresh_idents {
            self.fresh += 1;
            format!("i{}", self.fresh)
        } else {
            self.rng.pick(&self.cfg.idents).clone()
        };
        self.used_idents.push(name.clone());
        name
    }

    /// the control skeleton of a counted loop: an else-chain (`cond ?> ^~ next |> exit`), or the reapply as
    /// the right operand of a logical operator (`cond && ^~ next`, `!cond-equivalent || ^~ next`)
    fn loop_control(&mut self, counter: G, n: usize, next: G, exit: G) -> G {
        match self.rng.below(6) {
            0 => G::bin("&&", G::bin("<", counter, G::num(n as i64)), G::Reapply(Box::new(next))),
            1 => G::bin("||", G::bin(">=", counter, G::num(n as i64)), G::Reapply(Box::new(next))),
            _ => G::Chain(vec![("?>", G::bin("<", counter, G::num(n as i64)), G::Reapply(Box::new(next)))], Some(Box::new(exit))),
        }
    }

    /// a whole program that is a reapply loop at the top level (no enclosing `{ }`), with the input value it
    /// must be started with: `$.n < N ?> ^~ (:n = $.n + 1, :v = BODY) |> EXIT` and `(:n = 0, :v = 1)`
    pub fn toplevel_loop(&mut self, budget: usize) -> (G, crate::val::Val) {
        use crate::val::Val;
        let n = self.rng.range(0, self.cfg.max_loop);
        let each = (budget.saturating_sub(6) / 2).max(1);
        let saved = self.dollar_keyed;
        self.dollar_keyed = true;
        self.no_dollar += 1;
        let body = self.expr(each);
        self.no_dollar -= 1;
        let exit = self.expr(each);
        self.dollar_keyed = saved;
        let counter = G::Access(Box::new(G::atom("$")), "n".to_string());
        let next = G::CommaList(vec![G::bin("=", G::atom(":n"), G::bin("+", counter.clone(), G::num(1))), G::bin("=", G::atom(":v"), body)]);
        let chain = self.loop_control(counter, n, next, exit);
        let sym = |k: &str| Val::Sym(garnish_lang_simple_data::symbol_value(k));
        (chain, Val::List(vec![Val::pair(sym("n"), Val::Int(0)), Val::pair(sym("v"), Val::Int(1))]))
    }

    /// `{ $.n < N ?> ^~ (:n = $.n + 1, :v = BODY) |> EXIT } <~ (:n = 0, :v = INIT)` — bounded by a
    /// counter, never by the host. The loop state is a list of keyed pairs so that identifiers inside
    /// the loop can still be looked up in `$` on both data implementations.
    pub fn counted_loop(&mut self, budget: usize) -> G {
        let n = self.rng.range(0, self.cfg.max_loop);
        let each = (budget.saturating_sub(6) / 3).max(1);
        let saved = self.dollar_keyed;
        self.dollar_keyed = true;
        self.depth_nested += 1;
        self.no_dollar += 1;
        let body = self.expr(each);
        self.no_dollar -= 1;
        let exit = self.expr(each);
        self.depth_nested -= 1;
        self.dollar_keyed = saved;
        let init = self.expr(each);
        let counter = G::Access(Box::new(G::atom("$")), "n".to_string());
        let next = G::CommaList(vec![G::bin("=", G::atom(":n"), G::bin("+", counter.clone(), G::num(1))), G::bin("=", G::atom(":v"), body)]);
        let chain = self.loop_control(counter, n, next, exit);
        G::bin("<~", G::Nested(Box::new(chain)), G::CommaList(vec![G::bin("=", G::atom(":n"), G::num(0)), G::bin("=", G::atom(":v"), init)]))
    }
}

/// Input values used to start runs: unit, a keyed pair, or a list of keyed pairs over `keys`.
pub fn gen_input(rng: &mut Rng, keys: &[String]) -> crate::val::Val {
    use crate::val::Val;
    let sym = |k: &str| Val::Sym(garnish_lang_simple_data::symbol_value(k));
    match rng.below(4) {
        0 | 1 => Val::Unit,
        2 => {
            let k = rng.pick(keys).clone();
            Val::pair(sym(&k), Val::Int(100 + rng.below(50) as i32))
        }
        _ => {
            // distinct keys only (duplicate keys are a C16 matter)
            let mut ks: Vec<String> = keys.to_vec();
            rng.shuffle(&mut ks);
            let n = rng.range(1, ks.len());
            Val::List(ks[..n].iter().enumerate().map(|(i, k)| Val::pair(sym(k), Val::Int(200 + i as i32))).collect())
        }
    }
}

/// insert annotations at token boundaries chosen by `rng` (a space becomes ` @a<k> `; a line annotation in front)
pub fn annotate(src: &str, rng: &mut Rng, pct: u32) -> String {
    let mut out = String::new();
    if rng.chance(1, 3) {
        out.push_str("@@ note\n");
    }
    let mut in_text: Option<char> = None;
    let chars: Vec<char> = src.chars().collect();
    let mut k = 0;
    for (i, c) in chars.iter().enumerate() {
        match in_text {
            Some(q) => {
                if *c == q {
                    in_text = None;
                }
                out.push(*c);
                continue;
            }
            None => {
                if *c == '"' || *c == '\'' {
                    in_text = Some(*c);
                }
            }
        }
        out.push(*c);
        // only a single space between two non-space characters (never inside a blank-line separator)
        if *c == ' ' && i > 0 && chars[i - 1] != ' ' && chars[i - 1] != '\n' && i + 1 < chars.len() && chars[i + 1] != ' ' && chars[i + 1] != '\n' && rng.chance(pct, 100) {
            k += 1;
            out.push_str(&format!("@a{} ", k));
        }
    }
    out
}

