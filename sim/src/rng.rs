//! The one source of randomness: splitmix64 seeding + xoshiro256**.
//! Every choice of a simulated run is drawn from one `Rng` in a fixed order;
//! logging and observation never draw.

#[derive(Clone, Debug)]
pub struct Rng {
    s: [u64; 4],
}

pub fn splitmix64(x: &mut u64) -> u64 {
    *x = x.wrapping_add(0x9E37_79B9_7F4A_7C15);
    let mut z = *x;
    z = (z ^ (z >> 30)).wrapping_mul(0xBF58_476D_1CE4_E5B9);
    z = (z ^ (z >> 27)).wrapping_mul(0x94D0_49BB_1331_11EB);
    z ^ (z >> 31)
}

/// Seed of run `index` of campaign `campaign` under master seed `master`.
pub fn run_seed(master: u64, campaign: u64, index: u64) -> u64 {
    let mut x = master ^ 0xA5A5_5A5A_0F0F_F0F0;
    let a = splitmix64(&mut x);
    let mut y = a ^ campaign.wrapping_mul(0xD6E8_FEB8_6659_FD93);
    let b = splitmix64(&mut y);
    let mut z = b ^ index.wrapping_mul(0x9E37_79B9_7F4A_7C15);
    splitmix64(&mut z)
}

impl Rng {
    pub fn new(seed: u64) -> Self {
        let mut x = seed;
        let s = [splitmix64(&mut x), splitmix64(&mut x), splitmix64(&mut x), splitmix64(&mut x)];
        Rng { s }
    }

    pub fn next_u64(&mut self) -> u64 {
        let result = self.s[1].wrapping_mul(5).rotate_left(7).wrapping_mul(9);
        let t = self.s[1] << 17;
        self.s[2] ^= self.s[0];
        self.s[3] ^= self.s[1];
        self.s[1] ^= self.s[2];
        self.s[0] ^= self.s[3];
        self.s[2] ^= t;
        self.s[3] = self.s[3].rotate_left(45);
        result
    }

    /// uniform in 0..n (n > 0)
    pub fn below(&mut self, n: usize) -> usize {
        if n <= 1 {
            return 0;
        }
        (self.next_u64() % (n as u64)) as usize
    }

    /// uniform in lo..=hi
    pub fn range(&mut self, lo: usize, hi: usize) -> usize {
        if hi <= lo {
            return lo;
        }
        lo + self.below(hi - lo + 1)
    }

    pub fn range_i(&mut self, lo: i64, hi: i64) -> i64 {
        if hi <= lo {
            return lo;
        }
        lo + (self.next_u64() % ((hi - lo + 1) as u64)) as i64
    }

    /// true with probability num/den
    pub fn chance(&mut self, num: u32, den: u32) -> bool {
        (self.next_u64() % den as u64) < num as u64
    }

    pub fn pick<'a, T>(&mut self, items: &'a [T]) -> &'a T {
        let i = self.below(items.len());
        &items[i]
    }

    pub fn shuffle<T>(&mut self, items: &mut [T]) {
        let n = items.len();
        if n < 2 {
            return;
        }
        for i in (1..n).rev() {
            let j = self.below(i + 1);
            items.swap(i, j);
        }
    }

    /// weighted pick: returns index
    pub fn weighted(&mut self, weights: &[u32]) -> usize {
        let total: u64 = weights.iter().map(|w| *w as u64).sum();
        if total == 0 {
            return 0;
        }
        let mut r = self.next_u64() % total;
        for (i, w) in weights.iter().enumerate() {
            if r < *w as u64 {
                return i;
            }
            r -= *w as u64;
        }
        weights.len() - 1
    }

    pub fn fork(&mut self) -> Rng {
        Rng::new(self.next_u64())
    }
}

/// FNV-1a 64 — the harness's own stable hash (never std's RandomState).
#[derive(Clone, Copy, Debug)]
pub struct Fnv(pub u64);

impl Default for Fnv {
    fn default() -> Self {
        Fnv(0xcbf2_9ce4_8422_2325)
    }
}

impl Fnv {
    pub fn new() -> Self {
        Self::default()
    }
    pub fn bytes(&mut self, b: &[u8]) {
        for x in b {
            self.0 ^= *x as u64;
            self.0 = self.0.wrapping_mul(0x0000_0100_0000_01B3);
        }
    }
    pub fn u64(&mut self, v: u64) {
        self.bytes(&v.to_le_bytes());
    }
    pub fn str(&mut self, s: &str) {
        self.bytes(s.as_bytes());
        self.bytes(&[0xff]);
    }
    pub fn finish(&self) -> u64 {
        self.0
    }
}

pub fn hash_str(s: &str) -> u64 {
    let mut h = Fnv::new();
    h.str(s);
    h.finish()
}
