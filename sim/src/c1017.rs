//! C10 and C17 — both are decided from the recorded history of host calls (order, count, arguments,
//! use of the result) compared with the reference evaluator's prediction, under hosts that resolve
//! none / some / all identifiers, decline, fail or churn.
//!   C10: truthiness classification of every value type by every testing construct, and "evaluate only
//!        what they must" on programs whose every operand is a distinct host-observable identifier;
//!   C17: identifier lookup order (input value first, then the host, then unit), external apply,
//!        exactly-once calls, results used at exactly their occurrence.

use crate::c08::representatives;
use crate::campaign::{Campaign, Outcome, Tier};
use crate::eval::{erase_call, erase_expr, Evaluator, Stop};
use crate::gen::{Gen, GenCfg};
use crate::host::{compact_in_resolve, Answer, HasHost, Host, HostScript};
use crate::rng::{Fnv, Rng};
use crate::simdata::{BasicW, Knobs, SimData, SimpleW};
use crate::val::Val;
use crate::world::{compile, current_value, front_end, start, step, BuildOutcome, StepResult};
use garnish_lang_simple_data::symbol_value;
use garnish_lang_traits::GarnishData;
use serde::{Deserialize, Serialize};
use serde_json::{json, Value};

#[derive(Clone, Debug, Serialize, Deserialize)]
pub struct ScEval {
    /// SimpleGarnishData only: run on a working copy cloned from the store the program was built into
    #[serde(default)]
    pub working_copy: bool,
    /// jump entries the host registered for itself before the program was built (all naming one stub
    /// instruction): the builder's jump-table indices and instruction indices then run differently far ahead
    #[serde(default)]
    pub host_jumps: usize,
    pub basic: bool,
    pub src: String,
    pub input: Val,
    pub script: HostScript,
    pub max_steps: usize,
    /// BasicGarnishData: display names the host entered in the symbol table itself before the build
    /// (some datum of its own, `add_string(name)`, `push_to_symbol_table_block(symbol, text)`)
    #[serde(default)]
    pub host_names: Vec<String>,
    /// residue of an earlier failure: before the run, one resolve / deferred operation / (Basic) external apply is
    /// offered through the store's own entry points to a host that answers each with Err
    #[serde(default)]
    pub prior_failed_callbacks: bool,
}

struct Real {
    status: String,
    result: Option<Val>,
    log: Vec<String>,
    steps: usize,
}

fn run_real<D: SimData>(sc: &ScEval, out: &mut Outcome) -> Option<Real> {
    let mut d = D::create(Host::new(sc.script.clone()), &Knobs::default()).ok()?;
    d.host_mut().recording = false;
    if sc.host_jumps > 0 {
        let stub = d.push_instruction(garnish_lang_traits::Instruction::EndExpression, None).ok()?;
        for _ in 0..sc.host_jumps {
            d.push_to_jump_table(stub).ok()?;
        }
        out.probe("host-registered-jump-entries-before-the-build");
    }
    if !sc.host_names.is_empty() {
        if let Some(b) = d.as_any_mut().and_then(|a| a.downcast_mut::<BasicW>()) {
            for (k, name) in sc.host_names.iter().enumerate() {
                b.add_external(7 + k).ok()?;
                let text = b.add_string(name).ok()?;
                b.push_to_symbol_table_block(symbol_value(name), text).ok()?;
            }
            out.probe("host-entered-symbol-names-before-the-build");
        }
    }
    let built = match compile(&mut d, &sc.src) {
        BuildOutcome::Ok(b) => b,
        other => {
            if let BuildOutcome::Panic(p) = &other {
                out.foreign_panic = Some(p.clone());
            }
            out.abstain = Some(format!("program-{}", other.tag()));
            return None;
        }
    };
    d.host_mut().recording = true;
    if sc.prior_failed_callbacks {
        let mut failing = HostScript::default();
        failing.resolve_default = Some(Answer::Fail);
        failing.apply_default = Some(Answer::Fail);
        failing.defer_default = Some(Answer::Fail);
        let own = std::mem::replace(&mut d.host_mut().script, failing);
        let unit = d.add_unit().ok()?;
        let r1 = d.resolve(symbol_value("t1")).is_err();
        let r2 = d.defer_op(garnish_lang_traits::Instruction::Add, (garnish_lang_traits::GarnishDataType::Unit, 0), (garnish_lang_traits::GarnishDataType::Unit, 0)).is_err();
        let r3 = !D::IS_BASIC || d.apply(1, unit).is_err();
        d.host_mut().script = own;
        d.host_mut().reset_run();
        d.host_mut().fired_fail = 0;
        if !(r1 && r2 && r3) {
            out.violate("C17.prior-failure-swallowed", format!("a callback answered Err and the store's entry point returned Ok (resolve {r1}, defer_op {r2}, apply {r3})"));
            return None;
        }
        out.probe("run-after-earlier-failed-callbacks");
    }
    // what a host does after a build on BasicGarnishData: the constants are only protected from compaction
    // (a scripted host may compact inside a callback) by the retained prefix
    d.retain_now();
    if sc.working_copy {
        match d.working_copy() {
            Some(Ok(copy)) => {
                d = copy;
                out.probe("run-on-working-copy-of-the-store");
            }
            Some(Err(_)) => {
                out.abstain = Some("working-copy-failed".into());
                return None;
            }
            None => {}
        }
    }
    if start(&mut d, built.entry_jump, &sc.input).is_err() {
        out.abstain = Some("start-failed".into());
        return None;
    }
    let mut steps = 0;
    let status;
    loop {
        if steps >= sc.max_steps {
            status = "budget".to_string();
            break;
        }
        let r = step(&mut d);
        steps += 1;
        match r {
            StepResult::Running => {}
            StepResult::End => {
                status = "end".into();
                break;
            }
            StepResult::Err { .. } => {
                status = if r.is_host_failure() { "host-failure".into() } else { "err".into() };
                break;
            }
            StepResult::Panic(p) => {
                out.foreign_panic = Some(p);
                status = "panic".into();
                break;
            }
        }
    }
    if d.host().overflow {
        out.abstain = Some("host-log-cap".into());
        return None;
    }
    let result = if status == "end" { current_value(&d).map(|v| erase_expr(&v)) } else { None };
    out.count("steps", steps as u64);
    out.count("callbacks", d.host().calls as u64);
    out.count("f2_callback_fail_fired", d.host().fired_fail as u64);
    out.count("f3_callback_decline_fired", d.host().fired_decline as u64);
    out.count("f4_callback_churn_fired", d.host().fired_churn as u64);
    out.count("f8_compactions_inside_a_callback", d.host().fired_compact_in_callback as u64);
    if d.host().fired_compact_in_callback > 0 {
        out.probe("compaction-inside-a-callback");
    }
    Some(Real { status, result, log: d.host().log.iter().map(erase_call).collect(), steps })
}

/// the common oracle: real run vs reference evaluator
fn judge(prop: &str, sc: &ScEval) -> Outcome {
    let mut out = Outcome::default();
    let mut th = Fnv::new();
    let mut sh = Fnv::new();
    sh.str(&sc.src);
    sh.str(&format!("{:?}", sc.script));
    out.schedule_hash = sh.finish();
    let tree = match front_end(&sc.src) {
        Ok(t) => t,
        Err(o) => {
            out.abstain = Some(format!("program-{}", o.tag()));
            return out;
        }
    };
    if tree.get_nodes().is_empty() {
        out.abstain = Some("empty-program".into());
        return out;
    }
    let real = if sc.basic { run_real::<BasicW>(sc, &mut out) } else { run_real::<SimpleW>(sc, &mut out) };
    let Some(real) = real else { return out };
    th.str(&real.status);
    th.str(&format!("{:?}{:?}", real.result, real.log));
    let mut ev = Evaluator::new(&tree, &sc.script, sc.basic, sc.input.clone());
    let predicted = ev.run(tree.get_root());
    let plog: Vec<String> = ev.log.iter().map(erase_call).collect();
    match (&predicted, real.status.as_str()) {
        (Err(Stop::Abstain(why)), _) => {
            // group the reasons coarsely
            let w = why.split('(').next().unwrap_or(why).trim().to_string();
            out.abstain = Some(format!("evaluator: {}", if w.len() > 60 { w[..60].to_string() } else { w }));
        }
        (_, "budget") | (_, "panic") => out.abstain = Some(format!("real-run-{}", real.status)),
        (_, "err") => {
            // an Err other than a host failure: outside the model (C16-type lookups, unsupported casts …)
            out.abstain = Some("real-run-runtime-error".into());
        }
        (Err(Stop::Reapply(_)), _) => out.abstain = Some("evaluator: stray reapply".into()),
        (Err(Stop::HostFail), st) => {
            if st != "host-failure" {
                out.violate(&format!("{prop}.status"), format!("the host callback failed in the model, the real run ended with `{}` (history {:?})", st, real.log));
            } else if real.log != plog {
                out.violate(&format!("{prop}.history"), diff_logs(&real.log, &plog));
            }
            out.probe("callback-failure-ended-run");
        }
        (Ok(v), st) => {
            if st == "host-failure" {
                out.violate(&format!("{prop}.status"), format!("real run ended with a host failure the model does not predict (history {:?} vs {:?})", real.log, plog));
            } else if real.log != plog {
                out.violate(&format!("{prop}.history"), diff_logs(&real.log, &plog));
            } else {
                let pv = erase_expr(v);
                if pv.over_budget() || real.result.as_ref().map(|r| r.over_budget()).unwrap_or(false) {
                    out.probe("value-over-read-budget");
                } else if real.result.as_ref() != Some(&pv) {
                    out.violate(&format!("{prop}.value"), format!("real {:?} predicted {}", real.result.as_ref().map(|r| r.short()), pv.short()));
                }
            }
        }
    }
    let _ = real.steps;
    out.count("host_calls_compared", plog.len() as u64);
    out.nontrivial = out.abstain.is_none() && !plog.is_empty();
    if out.abstain.is_none() {
        if plog.iter().any(|c| c.starts_with("apply(")) {
            out.probe("external-apply-callback");
        }
        if plog.iter().any(|c| c.starts_with("defer(")) {
            out.probe("deferred-operation-in-history");
        }
        if plog.iter().any(|c| c.contains("-> decline")) {
            out.probe("declined-callback");
        }
    }
    let mut st = Fnv::new();
    st.str(&format!("{:?}", plog.iter().map(|c| c.split('(').next().unwrap_or("").to_string()).collect::<Vec<_>>()));
    out.state(st.finish());
    if let Some(v) = &out.violation {
        th.str(&v.invariant);
    }
    out.trace_hash = th.finish();
    out
}

fn diff_logs(real: &[String], model: &[String]) -> String {
    let k = real.iter().zip(model.iter()).position(|(a, b)| a != b).unwrap_or(real.len().min(model.len()));
    format!(
        "host-call histories differ at call #{}: real {:?}, reference {:?} (real made {} calls, reference {})",
        k,
        real.get(k).map(|s| s.as_str()).unwrap_or("<none>"),
        model.get(k).map(|s| s.as_str()).unwrap_or("<none>"),
        real.len(),
        model.len()
    )
}

fn shrink_eval(sc: &ScEval) -> Vec<ScEval> {
    let mut out = vec![];
    for cand in crate::c06::shrink_source(&sc.src) {
        let mut c = sc.clone();
        c.src = cand;
        out.push(c);
    }
    if sc.input != Val::Unit {
        let mut c = sc.clone();
        c.input = Val::Unit;
        out.push(c);
    }
    for k in sc.script.nth_override.keys() {
        let mut c = sc.clone();
        c.script.nth_override.remove(k);
        out.push(c);
    }
    for (k, a) in &sc.script.resolve {
        if *a != Answer::Unique {
            let mut c = sc.clone();
            c.script.resolve.insert(*k, Answer::Unique);
            out.push(c);
        }
    }
    out
}

// ---------------------------------------------------------------------------------------------

pub struct C10;

fn steer_cfg(rng: &mut Rng) -> GenCfg {
    let budget = rng.range(3, 36);
    let mut c = GenCfg::core(budget);
    c.fresh_idents = true;
    c.ident_leaf_pct = 70;
    c.w_cond = 14;
    c.w_chain = 14;
    c.w_logic = 16;
    c.w_nested = 8;
    c.w_loop = 4;
    c.w_side = 5;
    c.w_seq = 4;
    c.w_list = 5;
    c.w_eq = 3;
    c.w_arith = 3;
    c.w_bitwise = 0;
    c.w_text = 1;
    c.max_loop = 5;
    c
}

impl Campaign for C10 {
    type Scenario = ScEval;
    fn prop(&self) -> &'static str {
        "C10"
    }
    fn id(&self) -> u64 {
        10
    }
    fn runs(&self, tier: Tier) -> u64 {
        match tier {
            Tier::Quick => 12_000 * 8,
            Tier::Thorough => 12_000_000 * 8,
        }
    }
    fn group(&self, _tier: Tier) -> u64 {
        8
    }
    fn min_verdict_pct(&self) -> u64 {
        60
    }

    fn generate(&self, rng: &mut Rng, _tier: Tier, index: u64) -> ScEval {
        let v = index % 8;
        let basic = rng.chance(1, 2);
        let cfg = steer_cfg(rng);
        let mut g = Gen::new(rng, cfg);
        let prog = g.program();
        let src = g.print(&prog);
        let mut idents: Vec<String> = vec![];
        for i in g.used_idents.iter() {
            if !idents.contains(i) {
                idents.push(i.clone());
            }
        }
        // the truth assignment of this variant: all true, all false, then seeded masks
        let mut vr = Rng::new(rng.next_u64() ^ v.wrapping_mul(0x9E37_79B9_7F4A_7C15));
        let reps = representatives();
        let mut script = HostScript::default();
        for name in &idents {
            let truthy = match v {
                0 => true,
                1 => false,
                _ => vr.chance(1, 2),
            };
            let a = if truthy {
                // any truthy value will do; mostly the unique marker so that every use is attributable
                if vr.chance(1, 5) {
                    let t: Vec<&Val> = reps.iter().filter(|x| x.truthy() && !matches!(x, Val::Expr(_) | Val::Partial(..) | Val::External(_))).collect();
                    Answer::Provide((*vr.pick(&t)).clone())
                } else {
                    Answer::Unique
                }
            } else if vr.chance(1, 3) {
                Answer::Provide(if vr.chance(1, 2) { Val::False } else { Val::Unit })
            } else {
                Answer::Decline
            };
            script.resolve.insert(symbol_value(name), a);
        }
        script.resolve_default = Some(Answer::Unique);
        if basic && vr.chance(1, 6) {
            // F4: a churning host must not change the history
            let k = vr.below(idents.len().max(1));
            if let Some(name) = idents.get(k) {
                let prev = script.resolve.get(&symbol_value(name)).cloned().unwrap_or(Answer::Unique);
                script.resolve.insert(symbol_value(name), Answer::Churn(vr.range(1, 25) as u32, Box::new(prev)));
            }
        }
        let host_jumps = if vr.chance(1, 3) { vr.range(1, 16) } else { 0 };
        ScEval { host_jumps, working_copy: !basic && vr.chance(1, 4), basic, src, input: Val::Unit, script, max_steps: 3000, host_names: vec![], prior_failed_callbacks: false }
    }

    fn execute(&self, sc: &ScEval) -> Outcome {
        judge("C10", sc)
    }

    fn shrink(&self, sc: &ScEval) -> Vec<ScEval> {
        shrink_eval(sc)
    }

    fn seeded(&self) -> Vec<ScEval> {
        // workload A: every value type (several representatives) as the tested value x every testing construct
        let mut v = vec![];
        let constructs = ["c ?> t |> e", "c !> t |> e", "c && r", "c || r", "c ^^ r", "!!c", "??c", "c ?> t", "c !> t"];
        for basic in [false, true] {
            for rep in representatives() {
                if matches!(rep, Val::Expr(_)) {
                    continue;
                }
                for con in constructs {
                    let mut script = HostScript::default();
                    script.resolve.insert(symbol_value("c"), Answer::Provide(rep.clone()));
                    script.resolve_default = Some(Answer::Unique);
                    v.push(ScEval { host_jumps: 0, working_copy: false, basic, src: con.to_string(), input: Val::Unit, script, max_steps: 200, host_names: vec![], prior_failed_callbacks: false });
                }
            }
            // workload A3: the same constructs (and two else-chains) built after the host registered 1..16 jump entries
            // of its own, tested value true / false
            for host_jumps in 1..=16usize {
                for con in constructs.iter().copied().chain(["c ?> t |> d ?> u |> e", "d ?> t |> c ?> u |> e"]) {
                    for truthy in [true, false] {
                        let mut script = HostScript::default();
                        script.resolve.insert(symbol_value("c"), if truthy { Answer::Provide(Val::Int(7)) } else { Answer::Decline });
                        script.resolve.insert(symbol_value("d"), Answer::Decline);
                        script.resolve_default = Some(Answer::Unique);
                        v.push(ScEval { host_jumps, working_copy: false, basic, src: con.to_string(), input: Val::Unit, script, max_steps: 200, host_names: vec![], prior_failed_callbacks: false });
                    }
                }
            }
            // workload A2: the right operand of `&&` / `||` is an un-bracketed operator expression (the
            // operator sits directly under the logical node in the parse tree) over every pair of a
            // small set of operand values, incl. a float that is not a number
            let operands = [
                Val::Unit,
                Val::False,
                Val::True,
                Val::Int(0),
                Val::Int(5),
                Val::Float(2.5f64.to_bits()),
                Val::Float(f64::NAN.to_bits()),
                Val::Text("a".into()),
                Val::Sym(symbol_value("ka")),
                Val::List(vec![]),
                Val::Type(1),
            ];
            let shapes = ["a < b", "a <= b", "a > b", "a >= b", "a == b", "a != b", "a #= b", "!!a", "??a", "a ^^ b", "a + b", "a = b", "a b", "--a", "a << b"];
            for logical in ["&&", "||"] {
                for c_true in [true, false] {
                    for shape in shapes {
                        for a in &operands {
                            for b in &operands {
                                if !shape.contains('b') && b != &Val::Unit {
                                    continue;
                                }
                                let mut script = HostScript::default();
                                script.resolve.insert(symbol_value("c"), if c_true { Answer::Unique } else { Answer::Decline });
                                script.resolve.insert(symbol_value("a"), Answer::Provide(a.clone()));
                                script.resolve.insert(symbol_value("b"), Answer::Provide(b.clone()));
                                script.resolve_default = Some(Answer::Unique);
                                v.push(ScEval { host_jumps: 0, working_copy: false, basic, src: format!("c {} {}", logical, shape), input: Val::Unit, script, max_steps: 200, host_names: vec![], prior_failed_callbacks: false });
                            }
                        }
                    }
                }
            }
            // a declining host: the identifier is unit, hence false
            for con in constructs {
                let mut script = HostScript::default();
                script.resolve.insert(symbol_value("c"), Answer::Decline);
                script.resolve_default = Some(Answer::Unique);
                v.push(ScEval { host_jumps: 0, working_copy: false, basic, src: con.to_string(), input: Val::Unit, script, max_steps: 200, host_names: vec![], prior_failed_callbacks: false });
            }
        }
        v
    }

    fn haystack(&self, sc: &ScEval) -> String {
        format!("<<{}>>", sc.src)
    }

    fn rule(&self) -> String {
        "workload A (explicit scenarios, every invocation): 35 representative values of all data types (and a declining host) as the tested value x 9 testing forms (?> and !> with and without else, && || ^^ !! ??) x both data implementations; which of the observable identifiers t / e / r shows up in the host-call history and the result classify the value. workload B (seeded, groups of 8 truth assignments per program: all true, all false, 6 seeded masks, falsy = declined / unit / $!, truthy = unique marker or a value of any type): control-flow-heavy programs in which every operand is a distinct host-resolved identifier, so that every evaluation leaves a distinct entry. Oracle: the recorded history of host calls (symbols, order, multiplicity, answers) and the final value must equal the reference evaluator's. distinct = distinct (program, host script) hash; non-trivial = a verdict was reached and at least one host call was compared".to_string()
    }

    fn components(&self) -> Value {
        json!({"real": ["lexer", "parser", "builder", "runtime", "SimpleGarnishData", "BasicGarnishData"], "stub": ["host callbacks (scripted, recording)", "reference evaluator over the real parse tree (own value model; borrows literal parsing and two-number arithmetic from the data crate)"]})
    }

    fn assumptions(&self) -> Vec<String> {
        vec![
            "the reference evaluator's semantics (DESIGN §4.1) are part of the trusted base; it abstains outside the core language and whenever the real run returns a runtime error other than a host failure".into(),
            "expression values are opaque in comparisons".into(),
        ]
    }
}

// ---------------------------------------------------------------------------------------------

pub struct C17;

fn input_for(rng: &mut Rng, names: &[&str]) -> Val {
    let sym = |k: &str| Val::Sym(symbol_value(k));
    let mut ks: Vec<&str> = names.to_vec();
    rng.shuffle(&mut ks);
    let n = rng.range(1, ks.len());
    // what a key is bound to does not matter for "the input provides it": numbers, but also unit, false and containers
    let mut bound = |i: usize| match rng.below(8) {
        0 => Val::Unit,
        1 => Val::False,
        2 => Val::True,
        3 => Val::text("w"),
        4 => Val::List(vec![Val::Int(1), Val::Int(2)]),
        _ => Val::Int(500 + i as i32),
    };
    let pairs: Vec<Val> = ks[..n].iter().enumerate().map(|(i, k)| Val::pair(sym(k), bound(i))).collect();
    match rng.below(9) {
        0 | 1 => Val::Unit,
        2 => pairs[0].clone(),
        3 | 4 | 5 => Val::List(pairs),
        6 => {
            // a slice of a keyed list: only the identifiers inside the range come from the input
            let len = pairs.len() as i32;
            let start = rng.below(len as usize) as i32;
            let end = start + rng.below((len - start) as usize + 1) as i32;
            Val::Slice(Box::new(Val::List(pairs)), Box::new(Val::Range(Box::new(Val::Int(start)), Box::new(Val::Int(end)))))
        }
        7 => {
            if pairs.len() >= 2 {
                Val::Concat(Box::new(pairs[0].clone()), Box::new(pairs[1].clone()))
            } else {
                pairs[0].clone()
            }
        }
        _ => Val::Int(rng.below(20) as i32),
    }
}

impl Campaign for C17 {
    type Scenario = ScEval;
    fn prop(&self) -> &'static str {
        "C17"
    }
    fn id(&self) -> u64 {
        17
    }
    fn runs(&self, tier: Tier) -> u64 {
        match tier {
            Tier::Quick => 100_000,
            Tier::Thorough => 100_000_000,
        }
    }
    fn min_verdict_pct(&self) -> u64 {
        60
    }

    fn generate(&self, rng: &mut Rng, _tier: Tier, _index: u64) -> ScEval {
        let basic = rng.chance(3, 5);
        let budget = rng.range(2, 30);
        let mut cfg = GenCfg::core(budget);
        cfg.ident_leaf_pct = 60;
        cfg.w_fixapply = 6;
        cfg.w_nested = 10;
        cfg.w_access = 6;
        // names with an underscore at either edge are legal identifiers: the symbol the host is asked for must be
        // the hash of the whole name, in every position an identifier can take; a colon at the end of a name
        // (`u4:`) is dropped before hashing, as one in front of it is
        cfg.idents = vec!["t1".into(), "t2".into(), "t3".into(), "f1".into(), "f2".into(), "x1".into(), "x2".into(), "_u1".into(), "u2_".into(), "_u3_".into(), "u4:".into()];
        // the input shape decides whether `$.key` may be generated at the top level
        let input = input_for(rng, &["t1", "t2", "t3", "f1", "x1", "ka", "kb", "u4"]);
        let keyed = matches!(input, Val::Unit | Val::Pair(..) | Val::List(_));
        let mut g = Gen::new(rng, cfg);
        g.set_input_keyed(keyed);
        let prog = g.program();
        let src = g.print(&prog);
        let mut script = HostScript::default();
        // resolve none / some / all
        let mode = rng.below(4);
        for name in ["t1", "t2", "t3"] {
            let a = match mode {
                0 => Answer::Decline,
                1 => Answer::Unique,
                _ => match rng.below(4) {
                    0 => Answer::Decline,
                    1 => Answer::Provide(crate::c19::random_value(rng, 1)),
                    _ => Answer::Unique,
                },
            };
            script.resolve.insert(symbol_value(name), a);
        }
        for name in ["f1", "f2"] {
            script.resolve.insert(symbol_value(name), Answer::Decline);
        }
        for (i, name) in ["x1", "x2"].iter().enumerate() {
            script.resolve.insert(symbol_value(name), if mode == 0 { Answer::Decline } else { Answer::Provide(Val::External(i + 1)) });
        }
        script.resolve_default = Some(if mode == 0 { Answer::Decline } else { Answer::Unique });
        script.apply.insert(1, match rng.below(3) {
            0 => Answer::Decline,
            1 => Answer::Provide(crate::c19::random_value(rng, 1)),
            _ => Answer::Unique,
        });
        script.apply_default = Some(if rng.chance(1, 2) { Answer::Unique } else { Answer::Decline });
        script.defer_default = Some(if rng.chance(1, 5) { Answer::Unique } else { Answer::Decline });
        // faults: one callback fails (F2) or churns (F4)
        if rng.chance(1, 10) {
            script.nth_override.insert(rng.below(6), Answer::Fail);
        }
        if basic && rng.chance(1, 8) {
            script.nth_override.insert(rng.below(6), Answer::Churn(rng.range(1, 30) as u32, Box::new(Answer::Unique)));
        }
        if basic && rng.chance(1, 6) {
            // the host compacts the store inside its deferred-operation / external-apply callback, then answers
            let then = if rng.chance(1, 2) { Answer::Decline } else { Answer::Unique };
            if rng.chance(1, 2) {
                script.defer_default = Some(Answer::Compact(Box::new(then)));
            } else {
                script.apply_default = Some(Answer::Compact(Box::new(then)));
            }
        }
        let host_jumps = if rng.chance(1, 3) { rng.range(1, 16) } else { 0 };
        let working_copy = !basic && rng.chance(1, 4);
        // (last draw) the host compacts the store inside its *resolve* callback, then answers
        if basic && rng.chance(1, 8) {
            compact_in_resolve(&mut script);
        }
        // (last draws) names the host entered in the symbol table itself before the build; an earlier failed callback
        let mut host_names = vec![];
        if basic && rng.chance(1, 6) {
            for _ in 0..rng.range(1, 3) {
                let n = *rng.pick(&["t1", "t2", "t3", "f1", "x1", "x2", "_u1", "u2_", "u4", "ka"]);
                if !host_names.iter().any(|h: &String| h == n) {
                    host_names.push(n.to_string());
                }
            }
        }
        let prior_failed_callbacks = rng.chance(1, 8);
        ScEval { host_jumps, working_copy, basic, src, input, script, max_steps: 3000, host_names, prior_failed_callbacks }
    }

    fn execute(&self, sc: &ScEval) -> Outcome {
        judge("C17", sc)
    }

    fn shrink(&self, sc: &ScEval) -> Vec<ScEval> {
        shrink_eval(sc)
    }

    fn seeded(&self) -> Vec<ScEval> {
        // the documented protocol on minimal programs: identifier found in the input (pair, list, slice,
        // concatenation) must not reach the host; otherwise exactly one call; declined = unit; external apply
        let sym = |k: &str| Val::Sym(symbol_value(k));
        let list = Val::List(vec![Val::pair(sym("first"), Val::Int(5)), Val::pair(sym("name"), Val::Int(10)), Val::pair(sym("other"), Val::Int(20)), Val::pair(sym("last"), Val::Int(30))]);
        let inputs = vec![
            Val::Unit,
            Val::pair(sym("name"), Val::Int(7)),
            list.clone(),
            Val::Slice(Box::new(list.clone()), Box::new(Val::Range(Box::new(Val::Int(1)), Box::new(Val::Int(2))))),
            Val::Slice(Box::new(list.clone()), Box::new(Val::Range(Box::new(Val::Int(2)), Box::new(Val::Int(3))))),
            Val::Concat(Box::new(Val::pair(sym("a"), Val::Int(1))), Box::new(Val::pair(sym("name"), Val::Int(2)))),
            Val::Int(3),
            Val::Text("name".into()),
        ];
        let programs = ["name", "name + name", "{ name } <~ $", "name ?> other |> last", "x1 <~ name", "x1~~", "name` 5", "5 `name", "1 `x1` 2", "$.name", "(name, name) [name]"];
        let mut v = vec![];
        for basic in [false, true] {
            for input in &inputs {
                for p in programs {
                    for mode in 0..3 {
                        let mut script = HostScript::default();
                        script.resolve_default = Some(match mode {
                            0 => Answer::Decline,
                            1 => Answer::Unique,
                            _ => Answer::Provide(Val::text("provided")),
                        });
                        script.resolve.insert(symbol_value("x1"), Answer::Provide(Val::External(4)));
                        script.apply_default = Some(if mode == 0 { Answer::Decline } else { Answer::Unique });
                        v.push(ScEval { host_jumps: 0, working_copy: false, basic, src: p.to_string(), input: input.clone(), script: script.clone(), max_steps: 300, host_names: vec![], prior_failed_callbacks: false });
                        if !basic {
                            v.push(ScEval { host_jumps: 0, working_copy: true, basic, src: p.to_string(), input: input.clone(), script, max_steps: 300, host_names: vec![], prior_failed_callbacks: false });
                        }
                    }
                }
            }
        }
        v
    }

    fn haystack(&self, sc: &ScEval) -> String {
        format!("<<{}>>", sc.src)
    }

    fn rule(&self) -> String {
        "seeded core-language programs with identifiers and externals at every operand position (conditions, arms, list items, pair sides, callee and argument positions, prefix / suffix / infix apply, skipped branches, counter-bounded loops, nested expressions, side-effect blocks); input value per run: unit, a symbol-keyed pair, a list of keyed pairs over a random subset of the program's identifiers, a slice of such a list, a concatenation of pairs, or a number; host scripts resolve none / some / all, provide values of several types or externals (apply hook: BasicGarnishData), decline, fail at the n-th call (F2), churn (F4). Plus explicit minimal protocol scenarios (11 programs x 8 input shapes x 3 hosts x 2 implementations) on every invocation. Oracle: recorded resolve / apply / defer history (order, count, arguments, answers) and final value equal the reference evaluator's. distinct = distinct (program, input, script) hash; non-trivial = verdict reached with at least one host call compared".to_string()
    }

    fn components(&self) -> Value {
        json!({"real": ["lexer", "parser", "builder", "runtime (resolve, apply)", "SimpleGarnishData", "BasicGarnishData + companion hooks"], "stub": ["host callbacks (scripted, recording)", "reference evaluator over the real parse tree"]})
    }

    fn assumptions(&self) -> Vec<String> {
        vec![
            "reference evaluator semantics (DESIGN §4.1) trusted; abstains outside the core language, on keyed lookups in lists with unkeyed items or duplicate keys (C16), and when the real run returns a runtime error other than a host failure".into(),
            "SimpleGarnishData does not expose the apply hook: externals apply to unit there without a call".into(),
        ]
    }
}
