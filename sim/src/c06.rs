//! C06 (dynamic half) — evaluation is stack-balanced on every path the simulated host can steer a
//! run down. Every condition, logical operand and arm of the generated programs is a host-resolved
//! identifier; the host's truthy/falsy answers are swept (all 2^k assignments for k <= 6 identifiers,
//! seeded masks beyond), loop counts 0..N, both data implementations. Depth invariants are evaluated
//! after every step.

use crate::campaign::{Campaign, Outcome, Tier};
use crate::gen::{gen_input, Gen, GenCfg};
use crate::host::{Answer, HasHost, Host, HostScript};
use crate::rng::{Fnv, Rng};
use crate::simdata::{BasicW, Knobs, SimData, SimpleW};
use crate::val::Val;
use crate::world::{compile, current_instruction, start, step, BuildOutcome, StepResult};
use garnish_lang_simple_data::symbol_value;
use garnish_lang_traits::{GarnishData, Instruction};
use serde::{Deserialize, Serialize};
use serde_json::{json, Value};
use std::collections::BTreeMap;

#[derive(Clone, Debug, Serialize, Deserialize)]
pub struct Sc06 {
    pub basic: bool,
    pub src: String,
    pub input: Val,
    /// steering identifiers, in order of first appearance
    pub idents: Vec<String>,
    /// one run per mask: bit i set = identifier i resolves to a truthy value, clear = host declines (unit)
    pub masks: Vec<u64>,
    pub max_steps: usize,
    /// the host takes every operation the runtime offers it (deferred operators, external applies) and answers
    /// with a marker value, instead of declining
    #[serde(default)]
    pub accepting: bool,
    /// what a truthy identifier resolves to: identifier i gets palette[i % len]; empty = a unique number
    #[serde(default)]
    pub palette: Vec<Val>,
}

pub struct C06;

/// stack-discipline failures: the runtime found fewer pending operands / inputs / frames than an
/// instruction needs. Any of these in a fault-free run means the depth went below zero.
pub fn is_underflow(msg: &str) -> bool {
    msg.contains("No references in register")
        || msg.contains("Popped StackFrame")
        || msg.contains("Not enough register")
        || msg.contains("Could not pop")
        || msg.contains("No inputs available")
        || msg.contains("Failed to pop input")
        || msg.contains("No register value at")
}

fn script_for(sc: &Sc06, mask: u64) -> HostScript {
    let mut s = HostScript::default();
    for (i, name) in sc.idents.iter().enumerate() {
        let truthy = i >= 64 || (mask >> i) & 1 == 1;
        let yes = if sc.palette.is_empty() { Answer::Unique } else { Answer::Provide(sc.palette[i % sc.palette.len()].clone()) };
        s.resolve.insert(symbol_value(name), if truthy { yes } else { Answer::Decline });
    }
    s.resolve_default = Some(Answer::Unique);
    if sc.accepting {
        s.defer_default = Some(Answer::Unique);
        s.apply_default = Some(Answer::Unique);
    }
    s
}

fn run_mask<D: SimData>(sc: &Sc06, mask: u64, seen: &mut BTreeMap<(usize, usize), (i64, u64)>, out: &mut Outcome, th: &mut Fnv) -> bool {
    let mut d = D::create(Host::new(script_for(sc, mask)), &Knobs::default()).expect("world");
    d.host_mut().recording = false;
    let built = match compile(&mut d, &sc.src) {
        BuildOutcome::Ok(b) => b,
        other => {
            if let BuildOutcome::Panic(p) = &other {
                out.foreign_panic = Some(p.clone());
            }
            out.abstain = Some(format!("program-{}", other.tag()));
            return false;
        }
    };
    d.host_mut().recording = true;
    // initial depths, before the host pushes the input
    let r0 = d.operands().len();
    let v0 = d.value_stack().len();
    let f0 = d.frames().len();
    if start(&mut d, built.entry_jump, &sc.input).is_err() {
        out.abstain = Some("start-failed".into());
        return false;
    }
    let v_start = d.value_stack().len();
    let mut steps = 0usize;
    // loop heads of the frames currently open: (pc, call depth) -> (operands, inputs) at first entry
    let mut loops: BTreeMap<(usize, usize), (usize, usize)> = BTreeMap::new();
    let mut after_reapply = false;
    loop {
        if steps >= sc.max_steps {
            out.probe("step-budget-reached");
            return true;
        }
        let pc = d.get_instruction_cursor();
        let ins = current_instruction(&d).map(|(i, _)| i);
        // before the instruction executes
        let frames = d.frames();
        let base = frames.last().map(|f| f.1).unwrap_or(r0);
        let r = d.operands().len();
        let v = d.value_stack().len();
        let rel = r as i64 - base as i64;
        if rel < 0 {
            out.violate("C06.I1.below-frame-base", format!("mask {:#b}: at pc {} ({:?}) the operand stack ({}) is below the base of the current frame ({})", mask, pc, ins, r, base));
            return false;
        }
        if ins == Some(Instruction::EndExpression) && rel != 1 {
            out.violate("C06.I2.end-expression-depth", format!("mask {:#b}: at pc {} EndExpression with {} pending operand(s) in its frame, expected exactly 1", mask, pc, rel));
            return false;
        }
        let key = (pc, frames.len());
        match seen.get(&key) {
            Some((prel, pmask)) => {
                if *prel != rel {
                    out.violate(
                        "C06.I3.depth-differs-by-path",
                        format!("pc {} ({:?}) at call depth {}: {} pending operand(s) under mask {:#b}, but {} under mask {:#b}", pc, ins, frames.len(), rel, mask, prel, pmask),
                    );
                    return false;
                }
            }
            None => {
                seen.insert(key, (rel, mask));
            }
        }
        if after_reapply {
            // I4: every re-entry of a loop head finds the three stacks as deep as the first time
            after_reapply = false;
            match loops.get(&key) {
                Some((pr, pv)) => {
                    if *pr != r || *pv != v {
                        out.violate("C06.I4.loop-not-flat", format!("mask {:#b}: loop head pc {} re-entered with {} operands / {} inputs, first time {} / {}", mask, pc, r, v, pr, pv));
                        return false;
                    }
                    out.probe("loop-reentry-at-same-depth");
                }
                None => {
                    loops.insert(key, (r, v));
                }
            }
        }
        if ins == Some(Instruction::EndExpression) {
            let depth = frames.len();
            loops.retain(|k, _| k.1 < depth);
        }
        let res = step(&mut d);
        steps += 1;
        th.str(res.tag());
        th.u64(pc as u64);
        let mut st = Fnv::new();
        st.u64(pc as u64);
        st.u64(rel as u64);
        st.u64(v as u64);
        st.u64(frames.len() as u64);
        out.state(st.finish());
        // the builder compiles `^~` to UpdateValue + JumpTo back to the expression's entry (the Reapply
        // instruction itself is never emitted): a backward jump re-enters a loop head
        if ins == Some(Instruction::Reapply) || (ins == Some(Instruction::JumpTo) && d.get_instruction_cursor() <= pc && res == StepResult::Running) {
            after_reapply = true;
        }
        match res {
            StepResult::Running => {}
            StepResult::End => {
                let (r, v, f) = (d.operands().len(), d.value_stack().len(), d.frames().len());
                if r != r0 || f != f0 || v != v_start {
                    out.violate(
                        "C06.I5.final-depths",
                        format!("mask {:#b}: after End operands {} (initially {}), inputs {} (after the host pushed the input: {}), frames {} (initially {})", mask, r, r0, v, v_start, f, f0),
                    );
                    return false;
                }
                let _ = v0;
                out.probe("ran-to-completion");
                return true;
            }
            StepResult::Err { msg, unsupported } => {
                if is_underflow(&msg) {
                    out.violate("C06.I1.underflow", format!("mask {:#b}: step {} at pc {} ({:?}): {}", mask, steps, pc, ins, msg));
                    return false;
                }
                // any other runtime error ends this path without a verdict about depths beyond it
                out.probe(if unsupported { "path-ended-in-unsupported-types-error" } else { "path-ended-in-other-runtime-error" });
                out.count("paths_ended_in_error", 1);
                return true;
            }
            StepResult::Panic(p) => {
                out.foreign_panic = Some(p);
                return true;
            }
        }
    }
}

fn execute_in<D: SimData>(sc: &Sc06) -> Outcome {
    let mut out = Outcome::default();
    let mut th = Fnv::new();
    let mut seen: BTreeMap<(usize, usize), (i64, u64)> = BTreeMap::new();
    let mut paths = 0u64;
    for m in &sc.masks {
        let ok = run_mask::<D>(sc, *m, &mut seen, &mut out, &mut th);
        paths += 1;
        if !ok {
            break;
        }
    }
    out.count("host_assignments_run", paths);
    out.count("distinct_pc_depth_points", seen.len() as u64);
    out.nontrivial = paths > 0 && seen.len() > 3;
    let mut sh = Fnv::new();
    sh.str(&sc.src);
    sh.u64(sc.masks.len() as u64);
    out.schedule_hash = sh.finish();
    if let Some(v) = &out.violation {
        th.str(&v.invariant);
    }
    out.trace_hash = th.finish();
    out
}

fn cfg_for(rng: &mut Rng) -> GenCfg {
    let budget = rng.range(3, 40);
    let mut c = GenCfg::core(budget);
    c.fresh_idents = true;
    c.ident_leaf_pct = 55;
    c.w_cond = 14;
    c.w_chain = 12;
    c.w_logic = 12;
    c.w_nested = 10;
    c.w_loop = 6;
    c.w_side = 6;
    c.w_seq = 5;
    c.w_list = 6;
    c.w_eq = 5;
    c.w_arith = 4;
    c.max_loop = 40;
    // depth is all that is observed here, so constructs outside the reference evaluator's model are welcome
    c.w_partial = 4;
    if rng.chance(1, 2) {
        c.w_range = 3;
        c.w_concat = 3;
        c.w_symlist = 2;
        c.w_typeof = 2;
        c.w_cast = 2;
    }
    c
}

fn seeded_scenario(src: &str, idents: &[&str], masks: Vec<u64>) -> Vec<Sc06> {
    [false, true]
        .iter()
        .map(|b| Sc06 { basic: *b, src: src.to_string(), input: Val::Unit, idents: idents.iter().map(|s| s.to_string()).collect(), masks: masks.clone(), max_steps: 500, accepting: false, palette: vec![] })
        .collect()
}

pub const BINARY_OPS: [&str; 38] = [
    "+", "-", "*", "/", "//", "%", "**", "&", "|", "^", "<<", ">>", "&&", "||", "^^", "==", "!=", "<", "<=", ">", ">=", "#=", "=", "<>", "..", ">..", "..<", ">..<", "~", "~>", "<~", "~#",
    ".", "?>", "!>", "|>", ",", " ",
];
pub const PREFIX_OPS: [&str; 8] = ["++", "--", "!", "!!", "??", "#", "_.", "^~ "];
pub const SUFFIX_OPS: [&str; 3] = ["~~", "._", ".|"];

fn join_binary(l: &str, op: &str, r: &str) -> String {
    match op {
        "." => format!("{}.{}", l, r),
        " " => format!("{} {}", l, r),
        "," => format!("{}, {}", l, r),
        _ => format!("{} {} {}", l, op, r),
    }
}

/// Syntactic shapes (read off the real parse tree) that two recorded findings are about; used only by the
/// known-findings matcher, which needs to name a family of inputs precisely:
/// `else-without-conditional` = an else `|>` whose left operand is not a conditional link (not a conditional, and
/// not a chain ending in one: `a |> b`, `a + b |> c`, `a ?> b |> c |> d`);
/// `else-chain-without-default` = an else-chain whose last link is itself a conditional;
/// `expression-without-a-value` = a program without tokens (blanks and annotations aside) or an empty group `( )`;
/// `empty-side-effect` = a side-effect block with nothing in it (`[]`);
/// `reapply-under-operator` = a `^~` that is not an arm of a conditional / else-chain, an operand of `&&` /
/// `||`, or a whole (sub-)expression, so that operands of enclosing operators are pending when it jumps back.
pub fn shape_tags(src: &str) -> String {
    use garnish_lang_compiler::parse::Definition as Def;
    let Ok(parsed) = crate::world::front_end(src) else { return String::new() };
    let nodes = parsed.get_nodes();
    let def = |i: usize| nodes.get(i).map(|n| n.get_definition());
    let mut else_bad = false;
    let mut open_chain = false;
    // no value anywhere: no token at all (blanks and annotations aside), or a group with nothing in it
    let mut valueless = nodes.iter().all(|n| n.get_definition() == Def::Drop);
    let mut reapply_bad = false;
    let mut empty_side_effect = false;
    for n in nodes.iter() {
        match n.get_definition() {
            Def::ElseJump => {
                // the operand to the left of an else must be a conditional link: a conditional itself, or a chain whose
                // own last link is a conditional (an else after a default, `a ?> b |> c |> d`, is the same family)
                let ok = match n.get_left().and_then(def) {
                    Some(Def::JumpIfTrue) | Some(Def::JumpIfFalse) => true,
                    Some(Def::ElseJump) => {
                        let inner_right = n.get_left().and_then(|l| nodes.get(l)).and_then(|ln| ln.get_right()).and_then(def);
                        matches!(inner_right, Some(Def::JumpIfTrue) | Some(Def::JumpIfFalse))
                    }
                    _ => false,
                };
                if !ok {
                    else_bad = true;
                }
                // the chain's last link is conditional (no default) unless a parent else continues the chain
                let last_is_conditional = matches!(n.get_right().and_then(def), Some(Def::JumpIfTrue) | Some(Def::JumpIfFalse));
                let continued = n.get_parent().map(|pi| def(pi) == Some(Def::ElseJump) && nodes[pi].get_left().and_then(|l| nodes.get(l)).map(|ln| std::ptr::eq(ln, n)).unwrap_or(false)).unwrap_or(false);
                if last_is_conditional && !continued {
                    open_chain = true;
                }
            }
            Def::Group if n.get_left().is_none() && n.get_right().is_none() => valueless = true,
            Def::SideEffect if n.get_right().is_none() => empty_side_effect = true,
            Def::Reapply => {
                let mut cur = n.get_parent();
                while let Some(pi) = cur {
                    match def(pi) {
                        Some(Def::JumpIfTrue) | Some(Def::JumpIfFalse) | Some(Def::ElseJump) | Some(Def::And) | Some(Def::Or) | Some(Def::Group) | Some(Def::Subexpression) => {
                            cur = nodes[pi].get_parent();
                        }
                        Some(Def::NestedExpression) | None => break,
                        Some(_) => {
                            reapply_bad = true;
                            break;
                        }
                    }
                }
            }
            _ => {}
        }
    }
    format!(
        "{}{}{}{}{}",
        if empty_side_effect { " shape:empty-side-effect" } else { "" },
        if valueless { " shape:expression-without-a-value" } else { "" },
        if else_bad { " shape:else-without-conditional" } else { "" },
        if reapply_bad { " shape:reapply-under-operator" } else { "" },
        if open_chain { " shape:else-chain-without-default" } else { "" }
    )
}

/// values of different kinds for the identifiers of the operator programs (the first identifier is the left
/// operand of the first operator: text, bytes, a range and a list take that place in turn)
fn palettes() -> Vec<Vec<Val>> {
    let sym = |k: &str| Val::Sym(symbol_value(k));
    let keyed = Val::List(vec![Val::pair(sym("ka"), Val::Int(1)), Val::pair(sym("kb"), Val::Int(2))]);
    let range = Val::Range(Box::new(Val::Int(0)), Box::new(Val::Int(2)));
    vec![
        vec![],
        vec![Val::text("abc"), sym("ka"), keyed.clone(), range.clone()],
        vec![Val::Bytes(b"abc".to_vec()), Val::Int(1), Val::text("x"), Val::List(vec![Val::Int(1), Val::Int(2), Val::Int(3)])],
        vec![range, sym("kb"), Val::pair(sym("ka"), Val::Int(5)), Val::text("abc")],
        vec![keyed, range_of(1, 1), Val::Int(0), sym("ka")],
        // externals: only a host can provide them (SimpleGarnishData has no apply hook of its own: the trait default answers)
        vec![Val::External(1), Val::Int(5), Val::External(2), Val::Int(7)],
        // numbers without an order (only arithmetic produces them: `--2.5 ** 0.5`), an infinite one
        vec![Val::Float(f64::NAN.to_bits()), Val::Int(1), Val::Float(f64::NAN.to_bits()), Val::Float(f64::INFINITY.to_bits())],
    ]
}

fn range_of(a: i32, b: i32) -> Val {
    Val::Range(Box::new(Val::Int(a)), Box::new(Val::Int(b)))
}

/// every ordered pair of operators (binary, prefix, suffix, space list, comma list, conditional and apply
/// forms) around distinct identifiers, at the top level and inside a called expression: the part of the
/// C02 corpus that is small enough to be swept completely on every invocation
pub fn operator_pairs() -> Vec<Sc06> {
    let mut srcs: Vec<(String, usize)> = vec![];
    for a in BINARY_OPS {
        for b in BINARY_OPS {
            srcs.push((join_binary(&join_binary("i1", a, "i2"), b, "i3"), 3));
        }
        for p in PREFIX_OPS {
            srcs.push((join_binary(&format!("{}i1", p), a, "i2"), 2));
            srcs.push((join_binary("i1", a, &format!("{}i2", p)), 2));
        }
        for q in SUFFIX_OPS {
            srcs.push((join_binary(&format!("i1{}", q), a, "i2"), 2));
            srcs.push((join_binary("i1", a, &format!("i2{}", q)), 2));
        }
    }
    for p in PREFIX_OPS {
        for q in SUFFIX_OPS {
            srcs.push((format!("{}i1{}", p, q), 1));
        }
        for p2 in PREFIX_OPS {
            srcs.push((format!("{}{}i1", p, p2), 1));
        }
    }
    for q in SUFFIX_OPS {
        for q2 in SUFFIX_OPS {
            srcs.push((format!("i1{}{}", q, q2), 1));
        }
    }
    let mut out = vec![];
    for (src, k) in srcs {
        let idents: Vec<String> = (1..=k).map(|i| format!("i{}", i)).collect();
        let masks: Vec<u64> = (0..(1u64 << k)).collect();
        for wrapped in [false, true] {
            let text = if wrapped { format!("{{ {} }}~~", src) } else { src.clone() };
            for basic in [false, true] {
                for accepting in [false, true] {
                    for palette in palettes() {
                        out.push(Sc06 { basic, src: text.clone(), input: Val::Unit, idents: idents.clone(), masks: masks.clone(), max_steps: 300, accepting, palette });
                    }
                }
            }
        }
    }
    out
}

impl Campaign for C06 {
    type Scenario = Sc06;
    fn prop(&self) -> &'static str {
        "C06"
    }
    fn id(&self) -> u64 {
        6
    }
    fn runs(&self, tier: Tier) -> u64 {
        match tier {
            Tier::Quick => 20_000,
            Tier::Thorough => 1_200_000,
        }
    }

    fn generate(&self, rng: &mut Rng, _tier: Tier, _index: u64) -> Sc06 {
        let basic = rng.chance(1, 2);
        if rng.chance(1, 6) {
            // operator triples around distinct identifiers (the pairs are swept completely as explicit scenarios):
            // sampled from 38^3 combinations x optional prefix / suffix on each atom
            let n = 4;
            let mut atoms: Vec<String> = vec![];
            for i in 1..=n {
                let mut a = format!("i{}", i);
                match rng.below(8) {
                    0 => a = format!("{}{}", rng.pick(&PREFIX_OPS[..7]), a),
                    1 => a = format!("{}{}", a, rng.pick(&SUFFIX_OPS)),
                    _ => {}
                }
                atoms.push(a);
            }
            let mut src = atoms[0].clone();
            for a in &atoms[1..] {
                let op = *rng.pick(&BINARY_OPS);
                src = join_binary(&src, op, a);
            }
            let src = match rng.below(3) {
                0 => format!("{{ {} }}~~", src),
                1 => format!("{{ {} }} <~ 5", src),
                _ => src,
            };
            let idents: Vec<String> = (1..=n).map(|i| format!("i{}", i)).collect();
            let palette = rng.pick(&palettes()).clone();
            return Sc06 { basic, src, input: Val::Unit, idents, masks: (0..(1u64 << n)).collect(), max_steps: 300, accepting: rng.chance(1, 2), palette };
        }
        let cfg = cfg_for(rng);
        let keys = cfg.keys.clone();
        let mut g = Gen::new(rng, cfg);
        let mut loop_input = None;
        let prog = match g.rng.below(12) {
            0 | 1 => g.counted_loop(12),
            2 => {
                let (p, input) = g.toplevel_loop(12);
                loop_input = Some(input);
                p
            }
            _ => g.program(),
        };
        let src = g.print(&prog);
        let mut idents: Vec<String> = vec![];
        for i in g.used_idents.iter() {
            if !idents.contains(i) {
                idents.push(i.clone());
            }
        }
        let input = match loop_input {
            Some(i) => i,
            None => gen_input(rng, &keys),
        };
        let k = idents.len();
        let masks: Vec<u64> = if k <= 6 {
            (0..(1u64 << k)).collect()
        } else {
            let mut m = vec![0u64, u64::MAX];
            for _ in 0..30 {
                m.push(rng.next_u64());
            }
            m
        };
        let accepting = rng.chance(1, 3);
        let palette = if rng.chance(1, 3) { (0..4).map(|_| crate::c19::random_value(rng, 1)).collect() } else { vec![] };
        Sc06 { basic, src, input, idents, masks, max_steps: 2000, accepting, palette }
    }

    fn execute(&self, sc: &Sc06) -> Outcome {
        if sc.basic {
            execute_in::<BasicW>(sc)
        } else {
            execute_in::<SimpleW>(sc)
        }
    }

    fn shrink(&self, sc: &Sc06) -> Vec<Sc06> {
        let mut out = vec![];
        // fewer assignments
        if sc.masks.len() > 1 {
            for i in 0..sc.masks.len().min(64) {
                let mut c = sc.clone();
                c.masks = vec![sc.masks[i]];
                out.push(c);
            }
            for i in 0..sc.masks.len().min(16) {
                for j in (i + 1)..sc.masks.len().min(16) {
                    let mut c = sc.clone();
                    c.masks = vec![sc.masks[i], sc.masks[j]];
                    out.push(c);
                }
            }
        }
        if sc.input != Val::Unit {
            let mut c = sc.clone();
            c.input = Val::Unit;
            out.push(c);
        }
        // textual shrinking of the program: replace a parenthesised group by an atom
        for cand in shrink_source(&sc.src) {
            let mut c = sc.clone();
            c.src = cand;
            out.push(c);
        }
        out
    }

    fn seeded(&self) -> Vec<Sc06> {
        let mut v = vec![];
        // D1: an else-chain whose last arm is conditional and no arm matches
        v.extend(seeded_scenario("i1 ?> 1 |> i2 ?> 2", &["i1", "i2"], vec![0, 1, 2, 3]));
        // side-effect block directly after a closing bracket: the parser drops the bracketed value
        v.extend(seeded_scenario("(5) [6]", &[], vec![0]));
        v.extend(seeded_scenario("{ (9 % 2) [i1] }~~", &["i1"], vec![0, 1]));
        // a program / group without any value emits no instruction of its own: its terminator finds nothing pending
        v.extend(seeded_scenario("", &[], vec![0]));
        v.extend(seeded_scenario("@@ only a note", &[], vec![0]));
        v.extend(seeded_scenario("( )", &[], vec![0]));
        v.extend(seeded_scenario("5 + ( )", &[], vec![0]));
        v.extend(seeded_scenario("{ ( ) }~~", &[], vec![0]));
        // D30: an empty side-effect block: EndSideEffect pops a value nobody pushed (the value in front of the block, or nothing)
        v.extend(seeded_scenario("5 []", &[], vec![0]));
        v.extend(seeded_scenario("[] 5", &[], vec![0]));
        v.extend(seeded_scenario("{ i1 [] }~~", &["i1"], vec![0, 1]));
        // D28: a side-effect block directly in front of a nested expression: the expression value is never put
        v.extend(seeded_scenario("8 + [i1] { 1 }", &["i1"], vec![0, 1]));
        v.extend(seeded_scenario("{ 8 >= [i1] { 1 } }~~", &["i1"], vec![0, 1]));
        // an else after a default (found by the thorough tier's operator triples): same family as D21
        v.extend(seeded_scenario("i1 ?> i2 |> i3 |> i4", &["i1", "i2", "i3", "i4"], (0..16).collect()));
        v.extend(seeded_scenario("i1 ?> i2._ |> !!i3 |> _.i4", &["i1", "i2", "i3", "i4"], (0..16).collect()));
        v.extend(operator_pairs());
        v
    }

    fn haystack(&self, sc: &Sc06) -> String {
        format!("<<{}>>{}", sc.src, shape_tags(&sc.src))
    }

    fn rule(&self) -> String {
        "one run = one generated control-flow-heavy program (conditionals, else-chains, && || ^^ !! ??, nested expressions with the three apply forms, counter-bounded reapply loops of 0..40 iterations, side-effect blocks, sub-expression sequences, lists, partial application called with an argument / with the empty apply, lookups in concatenations; half of the programs draw on the full language; a twelfth are reapply loops at the top level; printed fully bracketed or with minimal brackets) in which every identifier occurrence is distinct, executed once per host truth assignment: all 2^k assignments for k <= 6 steering identifiers, else all-false, all-true and 30 seeded masks; on SimpleGarnishData or BasicGarnishData (per run). After every step: pending operands relative to the current frame never negative (I1), exactly one at EndExpression (I2), (pc, call depth) -> (pending operands, input depth) is a function across all visits and all assignments (I3), every re-entry of a reapply loop head finds operand and input stacks as deep as at its first entry (I4), and End restores the initial depths (I5). distinct = distinct (program, assignments) hash; non-trivial = more than three distinct (pc, call depth) points visited".to_string()
    }

    fn components(&self) -> Value {
        json!({"real": ["lexer", "parser", "builder", "runtime", "SimpleGarnishData", "BasicGarnishData"], "stub": ["host resolve callback (truthy/declining per identifier)", "depth monitor (observes through public API; Basic chains observed on a clone)"]})
    }

    fn assumptions(&self) -> Vec<String> {
        vec![
            "dynamic half only: 'every control-flow path' is sampled as 'every path the simulated host can steer a run down'; the static abstract interpretation named by the property is a different technique and is not built".into(),
            "a path that ends in a runtime error other than a stack-discipline failure gives no verdict beyond that point".into(),
            "programs using the bare expression terminator `;;` are excluded by the property; side-effect blocks are generated after atoms only (see known findings)".into(),
        ]
    }
}

/// crude textual shrinker: every balanced `( … )` group may be replaced by `1`, `()` or one of its own
/// top-level space-separated parts; every `{ … }` body likewise
pub fn shrink_source(src: &str) -> Vec<String> {
    let mut out = vec![];
    let bytes: Vec<char> = src.chars().collect();
    let mut stack: Vec<usize> = vec![];
    let mut groups: Vec<(usize, usize)> = vec![];
    let mut in_str: Option<char> = None;
    for (i, c) in bytes.iter().enumerate() {
        if let Some(q) = in_str {
            if *c == q {
                in_str = None;
            }
            continue;
        }
        match c {
            '"' | '\'' => in_str = Some(*c),
            '(' => stack.push(i),
            ')' => {
                if let Some(s) = stack.pop() {
                    if bytes[s] == '(' {
                        groups.push((s, i));
                    }
                }
            }
            _ => {}
        }
    }
    // larger groups first
    groups.sort_by_key(|(s, e)| std::cmp::Reverse(e - s));
    for (s, e) in groups.iter().take(40) {
        let before: String = bytes[..*s].iter().collect();
        let after: String = bytes[e + 1..].iter().collect();
        let inner: String = bytes[s + 1..*e].iter().collect();
        if inner.trim().is_empty() {
            continue;
        }
        for rep in ["1", "()", "i1"] {
            out.push(format!("{}{}{}", before, rep, after));
        }
        // hoist the inner text (drop one level of grouping)
        if before.is_empty() && after.is_empty() {
            out.push(inner.clone());
        }
    }
    // drop leading / trailing sub-expressions
    if let Some(p) = src.find("\n\n") {
        out.push(src[p + 2..].to_string());
        out.push(src[..p].to_string());
    }
    out.retain(|c| c.len() < src.len() && !c.contains(";;"));
    out
}

/// developer tool: run the operator-pair matrix in-process and list every violating program
pub fn dev_matrix() {
    use crate::campaign::Campaign;
    crate::world::install_panic_hook();
    let mut tally: BTreeMap<String, Vec<String>> = BTreeMap::new();
    for sc in operator_pairs() {
        let o = C06.execute(&sc);
        if let Some(v) = &o.violation {
            tally.entry(v.invariant.clone()).or_default().push(format!("{} [{}]", sc.src, if sc.basic { "basic" } else { "simple" }));
        }
    }
    for (k, v) in &tally {
        println!("== {} ({})", k, v.len());
        for s in v {
            println!("   {}", s);
        }
    }
}
