//! C15 — stored values read back unchanged, however the store grows.
//! Seeded histories over the complete data-interface alphabet against an abstract model of
//! independent growable tables, under randomised growth knobs (K1) and store-full faults (F1).

use crate::campaign::{drop_each, Campaign, Outcome, Tier};
use crate::host::{Host, HostScript};
use crate::rng::{Fnv, Rng};
use crate::simdata::{BasicW, BlockKnob, Knobs, SimData, SimpleW, Strat};
use crate::val::{num_to_val, read_val, type_from_u8, SymPart, Val};
use crate::world::guarded;
use garnish_lang_simple_data::{symbol_value, SimpleNumber};
use garnish_lang_traits::{GarnishData, GarnishDataType, Instruction};
use serde::{Deserialize, Serialize};
use serde_json::{json, Value};
use std::collections::BTreeMap;

#[derive(Clone, Debug, Serialize, Deserialize, PartialEq)]
pub enum Op {
    AddUnit,
    AddTrue,
    AddFalse,
    AddInt(i32),
    AddFloat(u64),
    AddType(u8),
    AddChar(char),
    AddByte(u8),
    AddSymbol(u64),
    AddExpression(usize),
    AddExternal(usize),
    /// composite of two existing values (selectors are taken modulo the number of known addresses)
    AddPair(usize, usize),
    AddConcat(usize, usize),
    AddRange(usize, usize),
    AddSlice(usize, usize),
    AddPartial(usize, usize),
    ParseNumber(String),
    ParseSymbol(String),
    ParseText(String),
    /// (literal body with `\u{..}` escapes, the text it denotes) — non-ASCII content from ASCII source, Basic only
    ParseTextEscaped(String, String),
    ParseBytes(String),
    /// parse_add_char / parse_add_byte of a one-character (ASCII) literal
    ParseChar(char),
    ParseByte(char),
    /// start_list / add_to_list* / end_list; `keyed` wraps each item in a pair keyed by a distinct symbol
    MakeList(Vec<usize>, bool),
    /// a list whose items are plain (None) or wrapped in a pair keyed by the given raw symbol value, in
    /// any order: keyed items behind plain ones, keys at the ends of the symbol value range, repeated keys
    MakeMixedList(Vec<(usize, Option<u64>)>),
    MergeSymbols(u64, u64, Option<u64>),
    /// the convenience adders outside the GarnishData trait: Basic add_string / add_byte_slice, Simple add_string /
    /// add_u8_vec / add_symbol_list / add_pair_from / add_plain_list_from / add_associative_list_from /
    /// add_concatenation_from (operands are leaf values)
    ApiText(String),
    ApiBytes(Vec<u8>),
    ApiSymbolList(Vec<u64>),
    ApiPair(Val, Val),
    ApiPlainList(Vec<Val>),
    ApiAssocList(Vec<(String, Val)>),
    ApiConcat(Val, Val, Vec<Val>),
    /// BasicGarnishData::push_object_to_data_block: a whole value graph handed over as a BasicObject
    PushObject(Val),
    /// merge_to_symbol_list of two earlier values that are symbols or symbol lists (any lengths, either order)
    MergeEarlier(usize, usize),
    PushRegister(usize),
    PopRegister,
    PushValue(usize),
    PopValue,
    SetCurrentValue(usize),
    PushFrame(usize),
    PopFrame,
    PushInstruction(u8, Option<usize>),
    PushJump(usize),
    PatchJump(usize, usize),
    /// conversions that add a new value derived from an existing one (sel): char list / byte list / symbol / number
    CharListFrom(usize),
    ByteListFrom(usize),
    SymbolFrom(usize),
    NumberFrom(usize),
    /// Basic only
    PushCustom,
    PushExprSymbol(u64, usize),
}

#[derive(Clone, Debug, Serialize, Deserialize)]
pub struct Sc15 {
    pub basic: bool,
    pub knobs: Knobs,
    pub ops: Vec<Op>,
    /// full read-back after every operation (else only at the end and on a sample)
    pub check_every: bool,
}

pub struct C15;

const INSTRS: [Instruction; 12] = [
    Instruction::Put,
    Instruction::Add,
    Instruction::EndExpression,
    Instruction::JumpTo,
    Instruction::MakeList,
    Instruction::Resolve,
    Instruction::Apply,
    Instruction::JumpIfTrue,
    Instruction::PutValue,
    Instruction::Concat,
    Instruction::Access,
    Instruction::UpdateValue,
];

#[derive(Default)]
struct Model {
    /// every address an add_* returned, with the structural value it must keep
    vals: BTreeMap<usize, Val>,
    order: Vec<usize>,
    instrs: Vec<(Instruction, Option<usize>)>,
    jumps: Vec<usize>,
    regs: Vec<usize>,
    values: Vec<usize>,
    frames: Vec<(usize, usize)>,
    symnames: BTreeMap<u64, String>,
    exprsyms: BTreeMap<u64, usize>,
    custom: usize,
    /// Simple: interned constants (content → address)
    interned: BTreeMap<Val, usize>,
    /// what the concatenation iterator gave (as structural values) the first time an address was read back:
    /// it must give the same ever after
    concat_views: std::cell::RefCell<BTreeMap<usize, Option<Vec<Val>>>>,
}

impl Model {
    fn pick(&self, sel: usize) -> Option<usize> {
        if self.order.is_empty() {
            None
        } else {
            Some(self.order[sel % self.order.len()])
        }
    }
    fn remember(&mut self, addr: usize, v: Val) {
        if !self.vals.contains_key(&addr) {
            self.order.push(addr);
        }
        self.vals.insert(addr, v);
    }
}

fn is_interned_kind(v: &Val) -> bool {
    matches!(v, Val::Int(_) | Val::Float(_) | Val::Type(_) | Val::Char(_) | Val::Byte(_) | Val::Sym(_) | Val::Expr(_) | Val::External(_) | Val::Text(_) | Val::Bytes(_))
}

fn store_full(e: &garnish_lang_simple_data::DataError) -> bool {
    let s = format!("{:?}", e);
    s.contains("exceeds max items")
}

enum Applied {
    Done,
    /// refused by a capacity limit: no model change
    Refused,
    Skipped,
    Violation(String, String),
}

fn apply<D: SimData>(d: &mut D, m: &mut Model, op: &Op, out: &mut Outcome) -> Applied {
    macro_rules! tryq {
        ($e:expr, $what:expr) => {
            match $e {
                Ok(v) => v,
                Err(e) => {
                    if store_full(&e) {
                        return Applied::Refused;
                    }
                    return Applied::Violation("C15.op-failed".into(), format!("{} failed on a store with room: {:?}", $what, crate::world::short_err(&format!("{:?}", e))));
                }
            }
        };
    }
    // adding a simple value: checks interning on Simple
    macro_rules! added {
        ($addr:expr, $val:expr) => {{
            let addr = $addr;
            let val: Val = $val;
            if !D::IS_BASIC && is_interned_kind(&val) {
                match m.interned.get(&val) {
                    Some(prev) => {
                        out.probe("simple-equal-constant-added-again");
                        if *prev != addr {
                            return Applied::Violation("C15.intern.equal-constant-new-address".into(), format!("{} first at {}, again at {}", val.short(), prev, addr));
                        }
                    }
                    None => {
                        if let Some(other) = m.vals.get(&addr) {
                            if *other != val {
                                return Applied::Violation("C15.intern.different-constant-same-address".into(), format!("{} got address {} which holds {}", val.short(), addr, other.short()));
                            }
                        }
                        m.interned.insert(val.clone(), addr);
                    }
                }
            }
            m.remember(addr, val);
        }};
    }
    match op {
        Op::AddUnit => added!(tryq!(d.add_unit(), "add_unit"), Val::Unit),
        Op::AddTrue => added!(tryq!(d.add_true(), "add_true"), Val::True),
        Op::AddFalse => added!(tryq!(d.add_false(), "add_false"), Val::False),
        Op::AddInt(i) => added!(tryq!(d.add_number(SimpleNumber::Integer(*i)), "add_number"), Val::Int(*i)),
        Op::AddFloat(b) => added!(tryq!(d.add_number(SimpleNumber::Float(f64::from_bits(*b))), "add_number"), Val::Float(*b)),
        Op::AddType(t) => added!(tryq!(d.add_type(type_from_u8(*t)), "add_type"), Val::Type(*t)),
        Op::AddChar(c) => added!(tryq!(d.add_char(*c), "add_char"), Val::Char(*c)),
        Op::AddByte(b) => added!(tryq!(d.add_byte(*b), "add_byte"), Val::Byte(*b)),
        Op::AddSymbol(s) => added!(tryq!(d.add_symbol(*s), "add_symbol"), Val::Sym(*s)),
        Op::AddExpression(e) => added!(tryq!(d.add_expression(*e), "add_expression"), Val::Expr(*e)),
        Op::AddExternal(e) => added!(tryq!(d.add_external(*e), "add_external"), Val::External(*e)),
        Op::AddPair(a, b) | Op::AddConcat(a, b) | Op::AddRange(a, b) | Op::AddSlice(a, b) | Op::AddPartial(a, b) => {
            let (Some(x), Some(y)) = (m.pick(*a), m.pick(*b)) else { return Applied::Skipped };
            let (vx, vy) = (Box::new(m.vals[&x].clone()), Box::new(m.vals[&y].clone()));
            if vx.size() + vy.size() > 300 {
                return Applied::Skipped;
            }
            let (addr, v) = match op {
                Op::AddPair(_, _) => (tryq!(d.add_pair((x, y)), "add_pair"), Val::Pair(vx, vy)),
                Op::AddConcat(_, _) => (tryq!(d.add_concatenation(x, y), "add_concatenation"), Val::Concat(vx, vy)),
                Op::AddRange(_, _) => (tryq!(d.add_range(x, y), "add_range"), Val::Range(vx, vy)),
                Op::AddSlice(_, _) => (tryq!(d.add_slice(x, y), "add_slice"), Val::Slice(vx, vy)),
                _ => (tryq!(d.add_partial(x, y), "add_partial"), Val::Partial(vx, vy)),
            };
            added!(addr, v)
        }
        Op::ParseNumber(s) => {
            let expect = match s.parse::<i32>() {
                Ok(i) => Val::Int(i),
                Err(_) => return Applied::Skipped,
            };
            added!(tryq!(d.parse_add_number(s), "parse_add_number"), expect)
        }
        Op::ParseSymbol(name) => {
            let sym = symbol_value(name);
            let addr = tryq!(d.parse_add_symbol(name), "parse_add_symbol");
            m.symnames.insert(sym, name.clone());
            added!(addr, Val::Sym(sym))
        }
        Op::ParseText(t) => added!(tryq!(d.parse_add_char_list(&format!("\"{}\"", t)), "parse_add_char_list"), Val::Text(t.clone())),
        Op::ParseTextEscaped(src, expect) => {
            if !D::IS_BASIC {
                // SimpleGarnishData's char-list length counts bytes (C14's subject)
                return Applied::Skipped;
            }
            added!(tryq!(d.parse_add_char_list(&format!("\"{}\"", src)), "parse_add_char_list"), Val::Text(expect.clone()))
        }
        Op::ParseChar(c) => added!(tryq!(d.parse_add_char(&format!("\"{}\"", c)), "parse_add_char"), Val::Char(*c)),
        Op::ParseByte(c) => added!(tryq!(d.parse_add_byte(&format!("'{}'", c)), "parse_add_byte"), Val::Byte(*c as u8)),
        Op::ParseBytes(t) => added!(tryq!(d.parse_add_byte_list(&format!("'{}'", t)), "parse_add_byte_list"), Val::Bytes(t.as_bytes().to_vec())),
        Op::MakeList(sels, keyed) => {
            let mut items: Vec<usize> = vec![];
            let mut vals: Vec<Val> = vec![];
            for (i, s) in sels.iter().enumerate() {
                let Some(a) = m.pick(*s) else { return Applied::Skipped };
                if *keyed {
                    let sym = symbol_value(&format!("lk{}", i));
                    let k = tryq!(d.add_symbol(sym), "add_symbol");
                    added!(k, Val::Sym(sym));
                    let p = tryq!(d.add_pair((k, a)), "add_pair");
                    let pv = Val::pair(Val::Sym(sym), m.vals[&a].clone());
                    added!(p, pv.clone());
                    items.push(p);
                    vals.push(pv);
                } else {
                    items.push(a);
                    vals.push(m.vals[&a].clone());
                }
            }
            if vals.iter().map(|v| v.size()).sum::<usize>() > 400 {
                return Applied::Skipped;
            }
            let mut l = tryq!(d.start_list(items.len()), "start_list");
            for a in &items {
                l = tryq!(d.add_to_list(l, *a), "add_to_list");
            }
            let addr = tryq!(d.end_list(l), "end_list");
            added!(addr, Val::List(vals));
            out.probe("list-built");
        }
        Op::MakeMixedList(sels) => {
            let mut items: Vec<usize> = vec![];
            let mut vals: Vec<Val> = vec![];
            for (s, key) in sels.iter() {
                let Some(a) = m.pick(*s) else { return Applied::Skipped };
                match key {
                    Some(sym) => {
                        let k = tryq!(d.add_symbol(*sym), "add_symbol");
                        added!(k, Val::Sym(*sym));
                        let p = tryq!(d.add_pair((k, a)), "add_pair");
                        let pv = Val::pair(Val::Sym(*sym), m.vals[&a].clone());
                        added!(p, pv.clone());
                        items.push(p);
                        vals.push(pv);
                    }
                    None => {
                        items.push(a);
                        vals.push(m.vals[&a].clone());
                    }
                }
            }
            if vals.iter().map(|v| v.size()).sum::<usize>() > 400 {
                return Applied::Skipped;
            }
            let mut l = tryq!(d.start_list(items.len()), "start_list");
            for a in &items {
                l = tryq!(d.add_to_list(l, *a), "add_to_list");
            }
            let addr = tryq!(d.end_list(l), "end_list");
            added!(addr, Val::List(vals));
            out.probe("mixed-list-built");
        }
        Op::MergeSymbols(a, b, c) => {
            let x = tryq!(d.add_symbol(*a), "add_symbol");
            added!(x, Val::Sym(*a));
            let y = tryq!(d.add_symbol(*b), "add_symbol");
            added!(y, Val::Sym(*b));
            let mut cur = tryq!(d.merge_to_symbol_list(x, y), "merge_to_symbol_list");
            let mut parts = vec![SymPart::Sym(*a), SymPart::Sym(*b)];
            added!(cur, Val::SymList(parts.clone()));
            if let Some(c) = c {
                let z = tryq!(d.add_symbol(*c), "add_symbol");
                added!(z, Val::Sym(*c));
                cur = tryq!(d.merge_to_symbol_list(cur, z), "merge_to_symbol_list");
                parts.push(SymPart::Sym(*c));
                added!(cur, Val::SymList(parts));
            }
        }
        Op::MergeEarlier(sa, sb) => {
            // the k-th / l-th earlier value of a symbol kind
            let syms: Vec<usize> = m.order.iter().cloned().filter(|a| matches!(m.vals[a], Val::Sym(_) | Val::SymList(_))).collect();
            if syms.is_empty() {
                return Applied::Skipped;
            }
            let (x, y) = (syms[sa % syms.len()], syms[sb % syms.len()]);
            let parts = |v: &Val| -> Vec<SymPart> {
                match v {
                    Val::Sym(s) => vec![SymPart::Sym(*s)],
                    Val::SymList(p) => p.clone(),
                    _ => vec![],
                }
            };
            let mut all = parts(&m.vals[&x]);
            all.extend(parts(&m.vals[&y]));
            if all.len() > 40 {
                return Applied::Skipped;
            }
            let addr = tryq!(d.merge_to_symbol_list(x, y), "merge_to_symbol_list");
            added!(addr, Val::SymList(all));
            out.probe("symbol-lists-merged");
        }
        Op::PushRegister(s) => {
            let Some(a) = m.pick(*s) else { return Applied::Skipped };
            tryq!(d.push_register(a), "push_register");
            m.regs.push(a);
        }
        Op::PopRegister => {
            let floor = m.frames.last().map(|f| f.1).unwrap_or(0);
            if m.regs.len() <= floor {
                return Applied::Skipped;
            }
            let got = tryq!(d.pop_register(), "pop_register");
            let want = m.regs.pop();
            if got != want {
                return Applied::Violation("C15.stack.pop-register".into(), format!("popped {:?}, model {:?}", got, want));
            }
        }
        Op::PushValue(s) => {
            let Some(a) = m.pick(*s) else { return Applied::Skipped };
            tryq!(d.push_value_stack(a), "push_value_stack");
            m.values.push(a);
        }
        Op::PopValue => {
            let got = d.pop_value_stack();
            let want = m.values.pop();
            if got != want {
                return Applied::Violation("C15.stack.pop-value".into(), format!("popped {:?}, model {:?}", got, want));
            }
        }
        Op::SetCurrentValue(s) => {
            let Some(a) = m.pick(*s) else { return Applied::Skipped };
            match d.get_current_value_mut() {
                Some(slot) => {
                    *slot = a;
                    match m.values.last_mut() {
                        Some(v) => *v = a,
                        None => return Applied::Violation("C15.stack.current-value".into(), "store has a current value, model has none".into()),
                    }
                }
                None => {
                    if !m.values.is_empty() {
                        return Applied::Violation("C15.stack.current-value".into(), "model has a current value, store has none".into());
                    }
                }
            }
        }
        Op::PushFrame(ret) => {
            tryq!(d.push_frame(*ret), "push_frame");
            m.frames.push((*ret, m.regs.len()));
        }
        Op::PopFrame => {
            let got = tryq!(d.pop_frame(), "pop_frame");
            match m.frames.pop() {
                Some((ret, depth)) => {
                    if got != Some(ret) {
                        return Applied::Violation("C15.stack.pop-frame".into(), format!("returned {:?}, model {:?}", got, ret));
                    }
                    m.regs.truncate(depth);
                }
                None => {
                    if got.is_some() {
                        return Applied::Violation("C15.stack.pop-frame".into(), format!("returned {:?}, model has no frame", got));
                    }
                    if !D::IS_BASIC {
                        // SimpleGarnishData searches the operand vector for a frame marker and drops what it passes
                        m.regs.clear();
                    }
                }
            }
        }
        Op::PushInstruction(i, data) => {
            let ins = INSTRS[*i as usize % INSTRS.len()];
            let idx = tryq!(d.push_instruction(ins, *data), "push_instruction");
            if idx != m.instrs.len() {
                return Applied::Violation("C15.table.instruction-index".into(), format!("returned index {}, model {}", idx, m.instrs.len()));
            }
            m.instrs.push((ins, *data));
        }
        Op::PushJump(v) => {
            tryq!(d.push_to_jump_table(*v), "push_to_jump_table");
            m.jumps.push(*v);
        }
        Op::PatchJump(i, v) => {
            if m.jumps.is_empty() {
                return Applied::Skipped;
            }
            let idx = i % m.jumps.len();
            match d.get_from_jump_table_mut(idx) {
                Some(slot) => {
                    *slot = *v;
                    m.jumps[idx] = *v;
                }
                None => return Applied::Violation("C15.table.jump-patch".into(), format!("no jump entry {} of {}", idx, m.jumps.len())),
            }
        }
        Op::CharListFrom(sel) | Op::ByteListFrom(sel) | Op::SymbolFrom(sel) | Op::NumberFrom(sel) => {
            let Some(src) = m.pick(*sel) else { return Applied::Skipped };
            let src_val = m.vals[&src].clone();
            // what the conversion yields is C01 / C14 territory; judged here: the call returns the address of a
            // NEW value of the kind it is named after (unit when a number conversion has no result), and
            // the source — like everything else — still reads back unchanged (checked by the read-back)
            if !src_val.all_ascii() {
                // byte length vs character count of non-ASCII text is C14's subject
                return Applied::Skipped;
            }
            if src_val.size() > 40 {
                return Applied::Skipped;
            }
            // any source kind: a conversion the implementation does not support returns Err (and may stop
            // half-way); nothing is promised for it, but it must not disturb anything added later or earlier
            let (res, want, name): (Result<usize, _>, &[GarnishDataType], &str) = match op {
                Op::CharListFrom(_) => (d.add_char_list_from(src), &[GarnishDataType::CharList], "add_char_list_from"),
                Op::ByteListFrom(_) => (d.add_byte_list_from(src), &[GarnishDataType::ByteList], "add_byte_list_from"),
                Op::SymbolFrom(_) => (d.add_symbol_from(src), &[GarnishDataType::Symbol], "add_symbol_from"),
                _ => (d.add_number_from(src), &[GarnishDataType::Number, GarnishDataType::Unit], "add_number_from"),
            };
            let addr = match res {
                Ok(a) => a,
                Err(e) => {
                    if store_full(&e) {
                        return Applied::Refused;
                    }
                    // a conversion the implementation does not support: nothing was promised
                    out.probe("conversion-returned-err");
                    return Applied::Skipped;
                }
            };
            let t = d.get_data_type(addr).ok();
            if !t.map(|t| want.contains(&t)).unwrap_or(false) {
                return Applied::Violation("C15.conversion.returned-address-kind".into(), format!("{} of {} returned address {} which holds a {:?}, expected {:?}", name, src_val.short(), addr, t, want));
            }
            let got = read_val(d, addr);
            if got.is_bad() {
                return Applied::Violation("C15.conversion.unreadable".into(), format!("{} of {} returned address {} which reads {}", name, src_val.short(), addr, got.short()));
            }
            out.probe("conversion-added-value");
            added!(addr, got)
        }
        Op::PushCustom | Op::PushExprSymbol(_, _) | Op::PushObject(_) => return basic_only(d, m, op),
        Op::ApiText(_) | Op::ApiBytes(_) | Op::ApiSymbolList(_) | Op::ApiPair(_, _) | Op::ApiPlainList(_) | Op::ApiAssocList(_) | Op::ApiConcat(_, _, _) => {
            return if D::IS_BASIC { basic_only(d, m, op) } else { simple_only(d, m, op) };
        }
    }
    Applied::Done
}

/// operations that exist on BasicGarnishData only
fn basic_only<D: SimData>(d: &mut D, m: &mut Model, op: &Op) -> Applied {
    let any: &mut dyn std::any::Any = match as_any(d) {
        Some(a) => a,
        None => return Applied::Skipped,
    };
    let Some(b) = any.downcast_mut::<BasicW>() else { return Applied::Skipped };
    match op {
        Op::PushObject(v) => {
            let Some(obj) = to_object(v) else { return Applied::Skipped };
            match b.push_object_to_data_block(obj) {
                Ok(addr) => {
                    m.remember(addr, v.clone());
                    Applied::Done
                }
                Err(e) if store_full(&e) => Applied::Refused,
                Err(e) => Applied::Violation("C15.op-failed".into(), format!("push_object_to_data_block: {:?}", crate::world::short_err(&format!("{:?}", e)))),
            }
        }
        Op::ApiText(t) => match b.add_string(t) {
            Ok(addr) => {
                m.remember(addr, Val::Text(t.clone()));
                Applied::Done
            }
            Err(e) if store_full(&e) => Applied::Refused,
            Err(e) => Applied::Violation("C15.op-failed".into(), format!("add_string: {:?}", crate::world::short_err(&format!("{:?}", e)))),
        },
        Op::ApiBytes(x) => match b.add_byte_slice(x) {
            Ok(addr) => {
                m.remember(addr, Val::Bytes(x.clone()));
                Applied::Done
            }
            Err(e) if store_full(&e) => Applied::Refused,
            Err(e) => Applied::Violation("C15.op-failed".into(), format!("add_byte_slice: {:?}", crate::world::short_err(&format!("{:?}", e)))),
        },
        Op::PushCustom => match b.push_to_custom_data_block(()) {
            Ok(i) => {
                if i != m.custom {
                    return Applied::Violation("C15.table.custom-index".into(), format!("returned {}, model {}", i, m.custom));
                }
                m.custom += 1;
                Applied::Done
            }
            Err(e) if store_full(&e) => Applied::Refused,
            Err(e) => Applied::Violation("C15.op-failed".into(), format!("push_to_custom_data_block: {:?}", crate::world::short_err(&format!("{:?}", e)))),
        },
        Op::PushExprSymbol(sym, v) => {
            if m.exprsyms.contains_key(sym) {
                return Applied::Skipped;
            }
            match b.push_to_expression_symbol_block(*sym, *v) {
                Ok(()) => {
                    m.exprsyms.insert(*sym, *v);
                    Applied::Done
                }
                Err(e) if store_full(&e) => Applied::Refused,
                Err(e) => Applied::Violation("C15.op-failed".into(), format!("push_to_expression_symbol_block: {:?}", crate::world::short_err(&format!("{:?}", e)))),
            }
        }
        _ => Applied::Skipped,
    }
}

/// a leaf value as SimpleData (None for anything that is not a leaf)
fn to_simple_leaf(v: &Val) -> Option<garnish_lang_simple_data::SimpleData<garnish_lang_simple_data::NoCustom>> {
    use garnish_lang_simple_data::SimpleData as S;
    Some(match v {
        Val::Unit => S::Unit,
        Val::True => S::True,
        Val::False => S::False,
        Val::Int(i) => S::Number(SimpleNumber::Integer(*i)),
        Val::Char(c) => S::Char(*c),
        Val::Byte(b) => S::Byte(*b),
        Val::Sym(s) => S::Symbol(*s),
        Val::Text(t) if t.is_ascii() => S::CharList(t.clone()),
        Val::Bytes(b) => S::ByteList(b.clone()),
        _ => return None,
    })
}

/// SimpleGarnishData's convenience adders
fn simple_only<D: SimData>(d: &mut D, m: &mut Model, op: &Op) -> Applied {
    let any: &mut dyn std::any::Any = match as_any(d) {
        Some(a) => a,
        None => return Applied::Skipped,
    };
    let Some(sd) = any.downcast_mut::<SimpleW>() else { return Applied::Skipped };
    let fail = |name: &str, e: garnish_lang_simple_data::DataError| Applied::Violation("C15.op-failed".into(), format!("{}: {:?}", name, crate::world::short_err(&format!("{:?}", e))));
    let leaves = |vs: &[Val]| vs.iter().map(to_simple_leaf).collect::<Option<Vec<_>>>();
    match op {
        Op::ApiText(t) => {
            if !t.is_ascii() {
                return Applied::Skipped;
            }
            match sd.add_string(t.clone()) {
                Ok(a) => m.remember(a, Val::Text(t.clone())),
                Err(e) => return fail("add_string", e),
            }
        }
        Op::ApiBytes(x) => match sd.add_u8_vec(x.clone()) {
            Ok(a) => m.remember(a, Val::Bytes(x.clone())),
            Err(e) => return fail("add_u8_vec", e),
        },
        Op::ApiSymbolList(syms) => match sd.add_symbol_list(syms.clone()) {
            Ok(a) => m.remember(a, Val::SymList(syms.iter().map(|s| SymPart::Sym(*s)).collect())),
            Err(e) => return fail("add_symbol_list", e),
        },
        Op::ApiPair(l, r) => {
            let (Some(sl), Some(sr)) = (to_simple_leaf(l), to_simple_leaf(r)) else { return Applied::Skipped };
            match sd.add_pair_from(sl, sr) {
                Ok(a) => m.remember(a, Val::pair(l.clone(), r.clone())),
                Err(e) => return fail("add_pair_from", e),
            }
        }
        Op::ApiPlainList(items) => {
            let Some(ls) = leaves(items) else { return Applied::Skipped };
            match sd.add_plain_list_from(ls) {
                Ok(a) => m.remember(a, Val::List(items.clone())),
                Err(e) => return fail("add_plain_list_from", e),
            }
        }
        Op::ApiAssocList(items) => {
            let Some(ls) = leaves(&items.iter().map(|(_, v)| v.clone()).collect::<Vec<_>>()) else { return Applied::Skipped };
            let arg: Vec<(String, _)> = items.iter().map(|(k, _)| k.clone()).zip(ls).collect();
            match sd.add_associative_list_from(arg) {
                Ok(a) => {
                    for (k, _) in items {
                        m.symnames.insert(symbol_value(k), k.clone());
                    }
                    m.remember(a, Val::List(items.iter().map(|(k, v)| Val::pair(Val::Sym(symbol_value(k)), v.clone())).collect()))
                }
                Err(e) => return fail("add_associative_list_from", e),
            }
        }
        Op::ApiConcat(a1, a2, more) => {
            let (Some(s1), Some(s2), Some(sm)) = (to_simple_leaf(a1), to_simple_leaf(a2), leaves(more)) else { return Applied::Skipped };
            match sd.add_concatenation_from(s1, s2, sm) {
                Ok(a) => {
                    let mut v = Val::Concat(Box::new(a1.clone()), Box::new(a2.clone()));
                    for x in more {
                        v = Val::Concat(Box::new(v), Box::new(x.clone()));
                    }
                    m.remember(a, v)
                }
                Err(e) => return fail("add_concatenation_from", e),
            }
        }
        _ => return Applied::Skipped,
    }
    Applied::Done
}

fn to_object(v: &Val) -> Option<garnish_lang_simple_data::BasicObject<()>> {
    use garnish_lang_simple_data::BasicObject as O;
    let b = |v: &Val| to_object(v).map(Box::new);
    Some(match v {
        Val::Unit => O::Unit,
        Val::True => O::True,
        Val::False => O::False,
        Val::Int(i) => O::Number(SimpleNumber::Integer(*i)),
        Val::Float(f) => O::Number(SimpleNumber::Float(f64::from_bits(*f))),
        Val::Type(t) => O::Type(type_from_u8(*t)),
        Val::Char(c) => O::Char(*c),
        Val::Byte(x) => O::Byte(*x),
        Val::Sym(s) => O::Symbol(*s),
        Val::SymList(parts) => O::SymbolList(
            parts
                .iter()
                .map(|p| match p {
                    SymPart::Sym(s) => garnish_lang_traits::SymbolListPart::Symbol(*s),
                    SymPart::Int(i) => garnish_lang_traits::SymbolListPart::Number(SimpleNumber::Integer(*i)),
                    SymPart::Float(f) => garnish_lang_traits::SymbolListPart::Number(SimpleNumber::Float(f64::from_bits(*f))),
                })
                .collect(),
        ),
        Val::Expr(e) => O::Expression(*e),
        Val::External(e) => O::External(*e),
        Val::Text(t) => O::CharList(t.clone()),
        Val::Bytes(x) => O::ByteList(x.clone()),
        Val::Pair(l, r) => O::Pair(b(l)?, b(r)?),
        Val::Range(l, r) => O::Range(b(l)?, b(r)?),
        Val::Slice(l, r) => O::Slice(b(l)?, b(r)?),
        Val::Partial(l, r) => O::Partial(b(l)?, b(r)?),
        Val::Concat(l, r) => O::Concatenation(b(l)?, b(r)?),
        Val::List(items) => O::List(items.iter().map(|i| to_object(i).map(Box::new)).collect::<Option<Vec<_>>>()?),
        _ => return None,
    })
}

fn as_any<D: SimData>(d: &mut D) -> Option<&mut dyn std::any::Any> {
    d.as_any_mut()
}

fn check_all<D: SimData>(d: &D, m: &Model, sample: Option<(usize, usize)>) -> Option<(String, String)> {
    // values
    let n = m.order.len();
    let idxs: Vec<usize> = match sample {
        Some((start, count)) if n > count => (0..count).map(|k| (start + k * 7) % n).collect(),
        _ => (0..n).collect(),
    };
    for i in idxs {
        let addr = m.order[i];
        let want = &m.vals[&addr];
        let t = d.get_data_type(addr).ok();
        if t != Some(want.data_type()) {
            return Some(("C15.readback.type".into(), format!("address {} type {:?}, expected {:?} ({})", addr, t, want.data_type(), want.short())));
        }
        let got = read_val(d, addr);
        if &got != want {
            return Some(("C15.readback.value".into(), format!("address {} reads {} expected {}", addr, got.short(), want.short())));
        }
        // second route for sequences: the iterators
        match want {
            Val::Text(s) => {
                let via: Option<String> = d.get_char_list_iter(addr, garnish_lang_traits::Extents::new(SimpleNumber::Integer(0), SimpleNumber::Integer(i32::MAX))).ok().map(|it| it.collect());
                if via.as_deref() != Some(s.as_str()) {
                    return Some(("C15.readback.char-iter".into(), format!("address {} iterates {:?} expected {:?}", addr, via, s)));
                }
            }
            Val::Bytes(b) => {
                let via: Option<Vec<u8>> = d.get_byte_list_iter(addr, garnish_lang_traits::Extents::new(SimpleNumber::Integer(0), SimpleNumber::Integer(i32::MAX))).ok().map(|it| it.collect());
                if via.as_ref() != Some(b) {
                    return Some(("C15.readback.byte-iter".into(), format!("address {} iterates {:?} expected {:?}", addr, via, b)));
                }
            }
            Val::SymList(parts) => {
                let via: Option<Vec<SymPart>> = d.get_symbol_list_iter(addr, garnish_lang_traits::Extents::new(SimpleNumber::Integer(0), SimpleNumber::Integer(i32::MAX))).ok().map(|it| {
                    it.map(|p| match p {
                        garnish_lang_traits::SymbolListPart::Symbol(c) => SymPart::Sym(c),
                        garnish_lang_traits::SymbolListPart::Number(SimpleNumber::Integer(n)) => SymPart::Int(n),
                        garnish_lang_traits::SymbolListPart::Number(SimpleNumber::Float(n)) => SymPart::Float(n.to_bits()),
                    })
                    .collect()
                });
                if via.as_ref() != Some(parts) {
                    return Some(("C15.readback.symbol-list-iter".into(), format!("address {} iterates {:?} expected {:?}", addr, via, parts)));
                }
            }
            Val::Concat(_, _) => {
                let via: Option<Vec<Val>> = d
                    .get_concatenation_iter(addr, garnish_lang_traits::Extents::new(SimpleNumber::Integer(0), SimpleNumber::Integer(i32::MAX)))
                    .ok()
                    .map(|it| it.map(|a| read_val(d, a)).collect());
                // without slices inside, the items are the leaves in order, lists spread out
                fn flat(v: &Val, out: &mut Vec<Val>) -> bool {
                    match v {
                        Val::Concat(l, r) => flat(l, out) && flat(r, out),
                        Val::List(items) => {
                            out.extend(items.iter().cloned());
                            true
                        }
                        Val::Slice(_, _) => false,
                        other => {
                            out.push(other.clone());
                            true
                        }
                    }
                }
                let mut expect = vec![];
                if flat(want, &mut expect) && via.as_ref() != Some(&expect) {
                    return Some(("C15.readback.concatenation-items".into(), format!("address {} iterates {:?} item(s), expected the {} leaves of {}", addr, via.as_ref().map(|v| v.len()), expect.len(), want.short())));
                }
                // the iterator may refuse an ill-formed operand (a slice whose range is not made of numbers): what it
                // gives — items or a refusal — must not change while the store grows
                let mut views = m.concat_views.borrow_mut();
                match views.get(&addr) {
                    None => {
                        views.insert(addr, via);
                    }
                    Some(first) => {
                        if first != &via {
                            return Some((
                                "C15.readback.concatenation-iter".into(),
                                format!("address {} iterates {:?} item(s) now, {:?} when first read", addr, via.as_ref().map(|v| v.len()), first.as_ref().map(|v| v.len())),
                            ));
                        }
                    }
                }
            }
            Val::List(items) => {
                let via: Option<Vec<Val>> = d
                    .get_list_item_iter(addr, garnish_lang_traits::Extents::new(SimpleNumber::Integer(0), SimpleNumber::Integer(i32::MAX)))
                    .ok()
                    .map(|it| it.map(|a| read_val(d, a)).collect());
                if via.as_ref() != Some(items) {
                    return Some(("C15.readback.list-iter".into(), format!("address {} list iterator gives {:?}", addr, via.map(|v| v.len()))));
                }
                // keyed items must be found by their key
                for it in items {
                    if let Val::Pair(k, v) = it {
                        if let Val::Sym(sym) = **k {
                            if D::IS_BASIC || items.iter().all(|x| matches!(x, Val::Pair(kk, _) if matches!(**kk, Val::Sym(_)))) {
                                match d.get_list_item_with_symbol(addr, sym) {
                                    Ok(Some(a)) => {
                                        let got = read_val(d, a);
                                        // duplicate keys: any of the values under that key is acceptable here (C16 decides which)
                                        let ok = items.iter().any(|x| matches!(x, Val::Pair(kk, vv) if **kk == Val::Sym(sym) && **vv == got));
                                        if !ok {
                                            return Some(("C15.readback.keyed-lookup".into(), format!("list {} key {} gives {} expected {}", addr, sym, got.short(), v.short())));
                                        }
                                    }
                                    other => return Some(("C15.readback.keyed-lookup".into(), format!("list {} key {} gives {:?}", addr, sym, other.map(|_| ()).map_err(|_| ())))),
                                }
                            }
                        }
                    }
                }
            }
            _ => {}
        }
    }
    // index iterators of the tables
    let di: Vec<usize> = d.get_data_iter().collect();
    if di != (0..d.get_data_len()).collect::<Vec<_>>() {
        return Some(("C15.table.data-iter".into(), format!("data iterator gives {} indices, data length {}", di.len(), d.get_data_len())));
    }
    let ii: Vec<usize> = d.get_instruction_iter().collect();
    if ii != (0..m.instrs.len()).collect::<Vec<_>>() {
        return Some(("C15.table.instruction-iter".into(), format!("instruction iterator gives {} indices, model {}", ii.len(), m.instrs.len())));
    }
    // instruction table
    if d.get_instruction_len() != m.instrs.len() {
        return Some(("C15.table.instruction-len".into(), format!("store {} model {}", d.get_instruction_len(), m.instrs.len())));
    }
    for (i, want) in m.instrs.iter().enumerate() {
        if d.get_instruction(i) != Some(*want) {
            return Some(("C15.table.instruction".into(), format!("index {} reads {:?} expected {:?}", i, d.get_instruction(i), want)));
        }
    }
    if d.get_instruction(m.instrs.len()).is_some() {
        return Some(("C15.table.instruction-past-end".into(), format!("index {} exists", m.instrs.len())));
    }
    // jump table
    if d.get_jump_table_len() != m.jumps.len() {
        return Some(("C15.table.jump-len".into(), format!("store {} model {}", d.get_jump_table_len(), m.jumps.len())));
    }
    for (i, want) in m.jumps.iter().enumerate() {
        if d.get_from_jump_table(i) != Some(*want) {
            return Some(("C15.table.jump".into(), format!("entry {} reads {:?} expected {}", i, d.get_from_jump_table(i), want)));
        }
    }
    if d.get_from_jump_table(m.jumps.len()).is_some() {
        return Some(("C15.table.jump-past-end".into(), format!("entry {} exists", m.jumps.len())));
    }
    // stacks
    let ops = d.operands();
    if ops != m.regs {
        return Some(("C15.stack.operands".into(), format!("store {:?} model {:?}", ops, m.regs)));
    }
    for (i, a) in m.regs.iter().enumerate() {
        // get_register indexes the raw vector on Simple (frame markers included): only checked when no frame is open
        if m.frames.is_empty() && d.get_register(i) != Some(*a) {
            return Some(("C15.stack.get-register".into(), format!("index {} reads {:?} expected {}", i, d.get_register(i), a)));
        }
    }
    let vs = d.value_stack();
    if vs != m.values {
        return Some(("C15.stack.values".into(), format!("store {:?} model {:?}", vs, m.values)));
    }
    if d.get_current_value() != m.values.last().copied() {
        return Some(("C15.stack.current-value".into(), format!("store {:?} model {:?}", d.get_current_value(), m.values.last())));
    }
    let fs = d.frames();
    if fs != m.frames {
        return Some(("C15.stack.frames".into(), format!("store {:?} model {:?}", fs, m.frames)));
    }
    // symbol names
    for (sym, name) in &m.symnames {
        let got = d.symbol_name(*sym);
        if got.as_deref() != Some(name.as_str()) {
            return Some(("C15.table.symbol-name".into(), format!("symbol {} reads {:?} expected {:?}", sym, got, name)));
        }
    }
    if let Some((inv, det)) = d.check_basic_tables(&m.exprsyms, m.custom) {
        return Some((inv, det));
    }
    None
}

fn execute_in<D: SimData>(sc: &Sc15) -> Outcome {
    let mut out = Outcome::default();
    let mut th = Fnv::new();
    let mut sh = Fnv::new();
    let mut d = match D::create(Host::new(HostScript::default()), &sc.knobs) {
        Ok(d) => d,
        Err(_) => {
            out.abstain = Some("create-failed".into());
            return out;
        }
    };
    let mut m = Model::default();
    let mut refused = 0u64;
    let mut done = 0u64;
    for (k, op) in sc.ops.iter().enumerate() {
        let before_sizes = d.allocated_sizes();
        let r = guarded(|| apply(&mut d, &mut m, op, &mut out));
        sh.str(&format!("{:?}", std::mem::discriminant(op)));
        match r {
            Err(p) => {
                out.foreign_panic = Some(p.clone());
                out.violate("C15.op-panicked", format!("op {} {:?}: {}", k, op, p));
                break;
            }
            Ok(Applied::Violation(inv, det)) => {
                out.violate(&inv, format!("op {} {:?}: {}", k, op, det));
                break;
            }
            Ok(Applied::Refused) => {
                refused += 1;
                sh.str("refused");
                out.probe("store-full-refusal");
            }
            Ok(Applied::Done) => {
                done += 1;
                // reach of the rarer operation kinds
                match op {
                    Op::ApiText(_) | Op::ApiBytes(_) | Op::ApiSymbolList(_) | Op::ApiPair(_, _) | Op::ApiPlainList(_) | Op::ApiAssocList(_) | Op::ApiConcat(_, _, _) => out.count("ops_convenience_adders", 1),
                    Op::PushObject(_) => out.count("ops_push_object", 1),
                    Op::MergeEarlier(_, _) => out.count("ops_merge_earlier", 1),
                    Op::MakeMixedList(_) => out.count("ops_mixed_list", 1),
                    Op::ParseTextEscaped(_, _) => out.count("ops_non_ascii_text", 1),
                    Op::CharListFrom(_) | Op::ByteListFrom(_) | Op::SymbolFrom(_) | Op::NumberFrom(_) => out.count("ops_conversions", 1),
                    _ => {}
                }
            }
            Ok(Applied::Skipped) => {}
        }
        let after_sizes = d.allocated_sizes();
        if let (Some(b), Some(a)) = (&before_sizes, &after_sizes) {
            let grown: Vec<usize> = (0..6).filter(|i| a[*i] > b[*i]).collect();
            if !grown.is_empty() {
                out.count("reallocations", 1);
                // which interleaving: a block grew while later blocks hold data
                if grown.iter().any(|g| *g < 4) && (m.order.len() > 0) {
                    out.probe("early-block-grew-while-data-block-holds-values");
                }
                if grown.contains(&4) && matches!(op, Op::MakeList(_, _) | Op::MakeMixedList(_)) {
                    out.probe("data-block-grew-inside-list-construction");
                }
                if grown.contains(&4) && matches!(op, Op::PushFrame(_)) {
                    out.probe("data-block-grew-inside-push-frame");
                }
            }
        }
        let res = if sc.check_every { guarded(|| check_all(&d, &m, None)) } else { guarded(|| check_all(&d, &m, Some((k * 13, 6)))) };
        match res {
            Err(p) => {
                out.violate("C15.readback.panicked", format!("after op {} {:?}: {}", k, op, p));
                break;
            }
            Ok(Some((inv, det))) => {
                out.violate(&inv, format!("after op {} {:?}: {}", k, op, det));
                break;
            }
            Ok(None) => {}
        }
        let mut st = Fnv::new();
        for s in after_sizes.unwrap_or([0; 6]) {
            st.u64(s as u64);
        }
        st.u64(m.regs.len() as u64);
        st.u64(m.frames.len() as u64);
        out.state(st.finish());
    }
    if out.violation.is_none() {
        match guarded(|| check_all(&d, &m, None)) {
            Err(p) => out.violate("C15.readback.panicked", format!("final read-back: {}", p)),
            Ok(Some((inv, det))) => out.violate(&inv, format!("final read-back: {}", det)),
            Ok(None) => {}
        }
    }
    out.count("store_operations", done);
    out.count("f1_store_full_fired", refused);
    out.count("addresses_read_back", m.order.len() as u64);
    if sc.knobs != Knobs::default() {
        out.count("k1_nondefault_growth_knobs", 1);
    }
    out.nontrivial = done >= 3;
    th.u64(done);
    th.u64(refused);
    th.str(&format!("{:?}", m.order));
    if let Some(v) = &out.violation {
        th.str(&v.invariant);
    }
    out.trace_hash = th.finish();
    out.schedule_hash = sh.finish();
    out
}

fn gen_op(rng: &mut Rng, basic: bool) -> Op {
    let w: [u32; 28] = [2, 1, 1, 8, 2, 1, 2, 2, 4, 2, 2, 6, 3, 2, 2, 2, 2, 4, 5, 3, 8, 3, 8, 5, 4, 3, 6, 6];
    match rng.weighted(&w) {
        0 => Op::AddUnit,
        1 => Op::AddTrue,
        2 => Op::AddFalse,
        3 => Op::AddInt(if rng.chance(1, 12) { *rng.pick(&[i32::MIN, i32::MIN + 1, i32::MAX, i32::MAX - 1, -1]) } else { rng.range_i(-3, 40) as i32 }),
        4 => Op::AddFloat((rng.below(40) as f64 / 8.0).to_bits()),
        5 => Op::AddType(rng.range(1, 20) as u8),
        6 if rng.chance(1, 4) => Op::ParseChar(*rng.pick(&['a', 'Z', '0', ' ', '~'])),
        7 if rng.chance(1, 4) => Op::ParseByte(*rng.pick(&['a', 'Z', '0', ' ', '~'])),
        6 => Op::AddChar(*rng.pick(&['a', 'b', 'z', 'é', '\0', '\u{10FFFF}', '\u{7f}', '\u{80}'])),
        7 => Op::AddByte(if rng.chance(1, 6) { *rng.pick(&[255u8, 254, 128, 127]) } else { rng.below(5) as u8 }),
        8 => Op::AddSymbol(if rng.chance(1, 5) {
            // raw symbol values no name hashes to: the ends of the value range
            *rng.pick(&[0u64, 1, u64::MAX, u64::MAX - 1, 1u64 << 63, (1u64 << 63) - 1])
        } else {
            symbol_value(*rng.pick(&["sa", "sb", "sc", "sd"]))
        }),
        9 => Op::AddExpression(if rng.chance(1, 10) { *rng.pick(&[usize::MAX, usize::MAX - 1, 1usize << 32]) } else { rng.below(6) }),
        10 => Op::AddExternal(if rng.chance(1, 10) { *rng.pick(&[usize::MAX, usize::MAX - 1, 1usize << 32]) } else { rng.below(6) }),
        11 => Op::AddPair(rng.below(1000), rng.below(1000)),
        12 => Op::AddConcat(rng.below(1000), rng.below(1000)),
        13 => Op::AddRange(rng.below(1000), rng.below(1000)),
        14 => Op::AddSlice(rng.below(1000), rng.below(1000)),
        15 => Op::AddPartial(rng.below(1000), rng.below(1000)),
        16 => Op::ParseNumber(rng.below(500).to_string()),
        17 => Op::ParseSymbol(rng.pick(&["alpha", "b", "gamma3", "k", "delta_x"]).to_string()),
        18 => {
            if basic && rng.chance(1, 4) {
                // multi-byte characters written with escapes, so that the (byte-counting, C14) literal parser is
                // not in the way; SimpleGarnishData's char-list length counts bytes, so Basic only
                let (src, expect) = *rng.pick(&[("\\u{e9}", "\u{e9}"), ("a\\u{e9}b", "a\u{e9}b"), ("\\u{65e5}\\u{672c}", "\u{65e5}\u{672c}"), ("x\\u{1f600}y", "x\u{1f600}y")]);
                Op::ParseTextEscaped(src.to_string(), expect.to_string())
            } else {
                Op::ParseText(rng.pick(&["", "a", "hello", "two words", "abcdefghijkl"]).to_string())
            }
        }
        19 if rng.chance(1, 2) => {
            let leaf = |rng: &mut Rng| match rng.below(7) {
                0 => Val::Unit,
                1 => Val::Int(rng.range_i(-2, 9) as i32),
                2 => Val::Char(*rng.pick(&['a', 'z'])),
                3 => Val::Sym(symbol_value(*rng.pick(&["sa", "sb", "lk0"]))),
                4 => Val::text(*rng.pick(&["", "a", "hello"])),
                5 => Val::Bytes(b"xyz"[..rng.range(0, 3)].to_vec()),
                _ => Val::True,
            };
            match rng.below(7) {
                0 => Op::ApiText(rng.pick(&["", "a", "two words", "h\u{e9}llo", "\u{65e5}\u{672c}"]).to_string()),
                1 => Op::ApiBytes(vec![0u8, 255, 65][..rng.range(0, 3)].to_vec()),
                2 => Op::ApiSymbolList((0..rng.range(1, 4)).map(|_| if rng.chance(1, 4) { *rng.pick(&[0u64, u64::MAX]) } else { symbol_value(*rng.pick(&["sa", "sb", "sc"])) }).collect()),
                3 => Op::ApiPair(leaf(rng), leaf(rng)),
                4 => Op::ApiPlainList((0..rng.range(0, 4)).map(|_| leaf(rng)).collect()),
                5 => Op::ApiAssocList((0..rng.range(0, 4)).map(|i| (format!("ak{}", i), leaf(rng))).collect()),
                _ => Op::ApiConcat(leaf(rng), leaf(rng), (0..rng.range(0, 2)).map(|_| leaf(rng)).collect()),
            }
        }
        19 => Op::ParseBytes(rng.pick(&["a", "bc", "wxyz"]).to_string()),
        20 => {
            let n = rng.range(0, 5);
            if rng.chance(1, 4) {
                let n = rng.range(1, 6);
                let keys = [0u64, 1, u64::MAX, u64::MAX - 1, 1u64 << 63, symbol_value("lk0"), symbol_value("lk1"), symbol_value("sa")];
                Op::MakeMixedList((0..n).map(|_| (rng.below(1000), if rng.chance(3, 5) { Some(*rng.pick(&keys)) } else { None })).collect())
            } else {
                Op::MakeList((0..n).map(|_| rng.below(1000)).collect(), rng.chance(1, 3))
            }
        }
        21 if rng.chance(1, 2) => Op::MergeEarlier(rng.below(1000), rng.below(1000)),
        21 => Op::MergeSymbols(symbol_value("ma"), symbol_value(*rng.pick(&["mb", "mc"])), if rng.chance(1, 2) { Some(symbol_value("md")) } else { None }),
        22 => {
            if rng.chance(2, 3) {
                Op::PushRegister(rng.below(1000))
            } else {
                Op::PopRegister
            }
        }
        23 => {
            if rng.chance(2, 3) {
                Op::PushValue(rng.below(1000))
            } else if rng.chance(1, 2) {
                Op::PopValue
            } else {
                Op::SetCurrentValue(rng.below(1000))
            }
        }
        24 => {
            if rng.chance(2, 3) {
                Op::PushFrame(rng.below(50))
            } else {
                Op::PopFrame
            }
        }
        25 => {
            if basic {
                if rng.chance(1, 3) {
                    let mut v = crate::c19::random_value(rng, 2);
                    if rng.chance(1, 4) {
                        // text with multi-byte characters somewhere in the graph
                        v = Val::pair(v, Val::text(*rng.pick(&["h\u{e9}llo", "\u{65e5}\u{672c}", "x\u{1f600}"])));
                    }
                    Op::PushObject(v)
                } else if rng.chance(1, 2) {
                    Op::PushCustom
                } else {
                    Op::PushExprSymbol(symbol_value(&format!("e{}", rng.below(12))), rng.below(9))
                }
            } else {
                Op::PopRegister
            }
        }
        26 => {
            if rng.chance(1, 5) {
                match rng.below(4) {
                    0 => Op::CharListFrom(rng.below(1000)),
                    1 => Op::ByteListFrom(rng.below(1000)),
                    2 => Op::SymbolFrom(rng.below(1000)),
                    _ => Op::NumberFrom(rng.below(1000)),
                }
            } else {
                Op::PushInstruction(rng.below(12) as u8, if rng.chance(1, 2) { Some(rng.below(30)) } else { None })
            }
        }
        _ => {
            if rng.chance(2, 3) {
                Op::PushJump(rng.below(100))
            } else {
                Op::PatchJump(rng.below(100), rng.below(100))
            }
        }
    }
}

fn small_block(rng: &mut Rng) -> BlockKnob {
    let init = *rng.pick(&[0usize, 1, 2, 3, 10]);
    let strat = if init >= 1 && rng.chance(1, 3) { Strat::Mult(*rng.pick(&[2usize, 3])) } else { Strat::Fixed(*rng.pick(&[1usize, 2, 3, 7, 10])) };
    BlockKnob { init, max: usize::MAX, strat }
}

/// the reduced alphabet of the bounded-exhaustive corner: one operation per table / stack
fn exhaustive_alphabet() -> Vec<Op> {
    vec![
        Op::PushInstruction(1, None),
        Op::PushJump(7),
        Op::ParseSymbol("sx".into()),
        Op::AddInt(41),
        Op::ParseText("ab".into()),
        Op::MakeList(vec![0, 1], true),
        Op::PushRegister(0),
        Op::PushValue(0),
        Op::PushFrame(3),
        Op::PushCustom,
        Op::PushExprSymbol(77, 1),
    ]
}

/// initial sizes 0, 1, 2 x every growth policy that can make progress, the same on all six blocks
fn exhaustive_configs() -> Vec<Knobs> {
    let mut configs = vec![];
    for init in [0usize, 1, 2] {
        for strat in [Strat::Fixed(1), Strat::Fixed(2), Strat::Mult(2)] {
            if matches!(strat, Strat::Mult(_)) && init == 0 {
                continue;
            }
            let b = BlockKnob { init, max: usize::MAX, strat };
            configs.push(Knobs { instr: b, jump: b, symtab: b, exprsym: b, data: b, custom: b });
        }
    }
    configs
}

/// number of (history, setting) pairs of the corner at one history length
pub fn exhaustive_count(len: usize) -> u64 {
    (exhaustive_alphabet().len() as u64).pow(len as u32) * exhaustive_configs().len() as u64
}

/// the `slot`-th (history, setting) pair of length `len`: slot = code * #settings + setting
fn exhaustive_scenario(len: usize, slot: u64) -> Sc15 {
    let alphabet = exhaustive_alphabet();
    let configs = exhaustive_configs();
    let n = alphabet.len() as u64;
    let nc = configs.len() as u64;
    let mut c = slot / nc;
    let knobs = configs[(slot % nc) as usize];
    let mut ops = vec![];
    for _ in 0..len {
        ops.push(alphabet[(c % n) as usize].clone());
        c /= n;
    }
    // symbols must be distinct names to be distinct table entries
    let mut k = 0;
    for op in ops.iter_mut() {
        if let Op::ParseSymbol(s) = op {
            *s = format!("sx{}", k);
            k += 1;
        }
        if let Op::PushExprSymbol(sym, _) = op {
            *sym += k as u64;
            k += 1;
        }
    }
    Sc15 { basic: true, knobs, ops, check_every: true }
}

/// run indices 0..exhaustive_indices(tier) of the generated part are the corner at length 5 (and 6 in the thorough tier)
fn exhaustive_indices(tier: Tier) -> u64 {
    match tier {
        Tier::Quick => exhaustive_count(5),
        Tier::Thorough => exhaustive_count(5) + exhaustive_count(6),
    }
}

impl Campaign for C15 {
    type Scenario = Sc15;
    fn prop(&self) -> &'static str {
        "C15"
    }
    fn id(&self) -> u64 {
        15
    }
    fn runs(&self, tier: Tier) -> u64 {
        match tier {
            Tier::Quick => 150_000 + exhaustive_indices(tier),
            Tier::Thorough => 15_000_000 + exhaustive_indices(tier),
        }
    }

    fn generate(&self, rng: &mut Rng, tier: Tier, index: u64) -> Sc15 {
        // the first indices continue the bounded-exhaustive corner beyond the explicit scenarios: length 5, then
        // (thorough tier) length 6; they do not draw from the PRNG
        if index < exhaustive_indices(tier) {
            let n5 = exhaustive_count(5);
            return if index < n5 { exhaustive_scenario(5, index) } else { exhaustive_scenario(6, index - n5) };
        }
        let basic = rng.chance(3, 4);
        let mut knobs = Knobs::default();
        if basic && rng.chance(3, 4) {
            knobs = Knobs { instr: small_block(rng), jump: small_block(rng), symtab: small_block(rng), exprsym: small_block(rng), data: small_block(rng), custom: small_block(rng) };
        }
        // F1: a capacity limit on one or two blocks (separate share of runs, so fault-free runs stay fault-free)
        if basic && rng.chance(1, 4) {
            for _ in 0..rng.range(1, 2) {
                match rng.below(5) {
                    0 => knobs.instr.max = rng.range(0, 12).max(knobs.instr.init),
                    1 => knobs.jump.max = rng.range(0, 10).max(knobs.jump.init),
                    2 => knobs.symtab.max = rng.range(0, 6).max(knobs.symtab.init),
                    3 => knobs.custom.max = rng.range(0, 6).max(knobs.custom.init),
                    _ => knobs.data.max = rng.range(3, 120).max(knobs.data.init),
                }
            }
        }
        // many short histories, a few long ones
        let len = match rng.below(10) {
            0 => rng.range(100, 400),
            1 | 2 => rng.range(30, 100),
            _ => rng.range(3, 30),
        };
        // bias towards the interleavings the property names: fill several blocks partly, then grow one
        let mut ops = vec![];
        let focus = rng.below(4);
        for _ in 0..len {
            let op = if rng.chance(1, 3) {
                match focus {
                    0 => Op::PushInstruction(rng.below(12) as u8, None),
                    1 => Op::PushJump(rng.below(50)),
                    2 => Op::ParseSymbol(format!("s{}", rng.below(40))),
                    _ => gen_op(rng, basic),
                }
            } else {
                gen_op(rng, basic)
            };
            ops.push(op);
        }
        Sc15 { basic, knobs, ops, check_every: len <= 60 || rng.chance(1, 4) }
    }

    fn execute(&self, sc: &Sc15) -> Outcome {
        if sc.basic {
            execute_in::<BasicW>(sc)
        } else {
            execute_in::<SimpleW>(sc)
        }
    }

    fn shrink(&self, sc: &Sc15) -> Vec<Sc15> {
        let mut out = vec![];
        for ops in drop_each(&sc.ops) {
            let mut c = sc.clone();
            c.ops = ops;
            out.push(c);
        }
        if sc.knobs != Knobs::default() {
            let mut c = sc.clone();
            c.knobs = Knobs::default();
            out.push(c);
            for i in 0..6 {
                let mut c = sc.clone();
                let b = match i {
                    0 => &mut c.knobs.instr,
                    1 => &mut c.knobs.jump,
                    2 => &mut c.knobs.symtab,
                    3 => &mut c.knobs.exprsym,
                    4 => &mut c.knobs.data,
                    _ => &mut c.knobs.custom,
                };
                if *b != BlockKnob::default() {
                    *b = BlockKnob::default();
                    out.push(c);
                }
            }
        }
        if !sc.check_every {
            let mut c = sc.clone();
            c.check_every = true;
            out.push(c);
        }
        out
    }

    fn seeded(&self) -> Vec<Sc15> {
        // the bounded-exhaustive corner the property names: every sequence of up to 4 operations over a
        // reduced alphabet (one operation per table / stack), for initial sizes 0, 1, 2 and every growth
        // policy that can make progress (additive 1 or 2; multiplicative 2 from a non-zero size), the same
        // setting on all six blocks; full read-back after every operation. (Lengths 5 and, in the thorough
        // tier, 6 are swept through the generated run indices: see `generate`.)
        let mut out = vec![];
        for len in 1..=4usize {
            for slot in 0..exhaustive_count(len) {
                out.push(exhaustive_scenario(len, slot));
            }
        }
        out
    }

    fn rule(&self) -> String {
        "explicit scenarios (every invocation): every sequence of 1..4 operations over an 11-operation alphabet (one per table / stack) x 8 uniform block settings (initial size 0,1,2 x additive 1, additive 2, multiplicative 2 from a non-zero size) on BasicGarnishData, full read-back after every operation. Seeded: one run = a seeded history of 3..400 data-interface operations (every add_*, parse_add_*, list construction keyed and unkeyed, symbol-list merge, operand / `$` / frame stack pushes and pops, current-value writes, instruction pushes, jump pushes and patches, Basic's custom and expression-symbol tables) applied to the real store and to an abstract model of independent growable tables; on BasicGarnishData each of the six blocks gets its own initial size in {0,1,2,3,10} and growth policy FixedSize{1,2,3,7,10} or Multiplicative{2,3} (only with a non-zero size), and a quarter of runs also a capacity limit so that some operation is refused. After every operation (all addresses for short histories, a rotating sample for long ones) and at the end every address ever returned is read back (type, content, iterators, keyed lookup), as are all tables and stacks. distinct = distinct scenario hash; non-trivial = at least three operations took effect".to_string()
    }

    fn components(&self) -> Value {
        json!({"real": ["BasicGarnishData (reallocate_heap, push_to_block, all add_* / stacks / tables)", "SimpleGarnishData (incl. intern cache)", "literal parsers used by parse_add_*"], "stub": ["abstract store model (Vec / BTreeMap per table)"]})
    }

    fn assumptions(&self) -> Vec<String> {
        vec![
            "growth policies that cannot make progress (additive 0, multiplicative on size 0, multiplier 1) are never configured — the statement excludes them".into(),
            "a refused (store-full) operation may leave garbage at new addresses but must not change anything the model knows".into(),
            "which of several values under a duplicate key a keyed lookup returns is not judged here (C16)".into(),
        ]
    }
}

#[allow(dead_code)]
fn unused(_: GarnishDataType) {
    let _ = num_to_val;
}
