//! The two shipped data implementations behind one small trait. Everything here goes through
//! public API of the real crates; nothing is reimplemented.

use crate::host::{host_apply, host_defer, host_resolve, HasHost, Host};
use crate::val::GD;
use garnish_lang_simple_data::{
    BasicDataCompanion, BasicGarnishData, DataError, NoCustom, ReallocationStrategy, SimpleData, SimpleGarnishData, StorageSettings,
};
use garnish_lang_traits::{GarnishData, GarnishDataType, Instruction};
use serde::{Deserialize, Serialize};

pub type SimpleW = SimpleGarnishData<NoCustom, Host>;
pub type BasicW = BasicGarnishData<(), Host>;

#[derive(Clone, Copy, Debug, PartialEq, Eq, Serialize, Deserialize)]
pub enum Strat {
    Fixed(usize),
    Mult(usize),
}

#[derive(Clone, Copy, Debug, PartialEq, Eq, Serialize, Deserialize)]
pub struct BlockKnob {
    pub init: usize,
    pub max: usize,
    pub strat: Strat,
}

impl Default for BlockKnob {
    fn default() -> Self {
        BlockKnob { init: 10, max: usize::MAX, strat: Strat::Fixed(10) }
    }
}

impl BlockKnob {
    pub fn settings(&self) -> StorageSettings {
        StorageSettings::new(
            self.init,
            self.max,
            match self.strat {
                Strat::Fixed(n) => ReallocationStrategy::FixedSize(n),
                Strat::Mult(n) => ReallocationStrategy::Multiplicative(n),
            },
        )
    }
    pub fn is_default(&self) -> bool {
        *self == BlockKnob::default()
    }
    /// capacity after k growth steps
    pub fn next_size(&self, size: usize) -> usize {
        match self.strat {
            Strat::Fixed(n) => size + n,
            Strat::Mult(n) => size * n,
        }
    }
}

/// Growth knobs (K1) and capacity limits (F1) of BasicGarnishData's six blocks.
/// Ignored by SimpleGarnishData, which has no such configuration.
#[derive(Clone, Copy, Debug, Default, PartialEq, Eq, Serialize, Deserialize)]
pub struct Knobs {
    pub instr: BlockKnob,
    pub jump: BlockKnob,
    pub symtab: BlockKnob,
    pub exprsym: BlockKnob,
    pub data: BlockKnob,
    pub custom: BlockKnob,
}

pub trait SimData: GD + HasHost + Clone {
    const KIND: &'static str;
    const IS_BASIC: bool;
    fn create(host: Host, knobs: &Knobs) -> Result<Self, DataError>;
    /// `$` stack, bottom to top (addresses)
    fn value_stack(&self) -> Vec<usize>;
    /// operand stack without frame markers, bottom to top (addresses)
    fn operands(&self) -> Vec<usize>;
    /// frame chain, bottom to top: (return instruction, operand depth saved at the call)
    fn frames(&self) -> Vec<(usize, usize)>;
    /// symbol name as the store reports it
    fn symbol_name(&self, sym: u64) -> Option<String>;
    /// Basic: retain_all_current_data + optimize(&[]); Simple has no compaction (no-op). false = refused
    fn retain_and_optimize(&mut self) -> bool {
        true
    }
    /// SimpleGarnishData: the "template + working copy" pattern — mark everything built so far as constant
    /// data and take a working copy with `clone_with_aux_without_data` (constants, instructions, jump
    /// table, symbol names and the host's callbacks are carried over). None on Basic.
    fn working_copy(&mut self) -> Option<Result<Self, DataError>> {
        None
    }
    /// Basic: retain_all_current_data (what a host does after a build); no-op on Simple
    fn retain_now(&mut self) {}
    /// Basic: optimize(&[]) with the retention count as it is; no-op on Simple. false = refused
    fn optimize_only(&mut self) -> bool {
        true
    }
    /// the concrete object, for the operations outside the GarnishData trait
    fn as_any_mut(&mut self) -> Option<&mut dyn std::any::Any> {
        None
    }
    /// Basic only: allocated sizes of [instruction, jump, symbol, expression-symbol, data, custom] blocks
    fn allocated_sizes(&self) -> Option<[usize; 6]> {
        None
    }
    /// Basic only: expression-symbol table and custom block against the model
    fn check_basic_tables(&self, _exprsyms: &std::collections::BTreeMap<u64, usize>, _custom: usize) -> Option<(String, String)> {
        None
    }
}

impl HasHost for SimpleW {
    fn host(&self) -> &Host {
        self.auxiliary_data()
    }
    fn host_mut(&mut self) -> &mut Host {
        self.auxiliary_data_mut()
    }
}

impl SimData for SimpleW {
    const KIND: &'static str = "simple";
    const IS_BASIC: bool = false;

    fn create(host: Host, _knobs: &Knobs) -> Result<Self, DataError> {
        let mut d = SimpleGarnishData::<NoCustom, Host>::new_custom();
        *d.auxiliary_data_mut() = host;
        d.set_resolver(host_resolve::<SimpleW>);
        d.set_op_handler(host_defer::<SimpleW>);
        Ok(d)
    }

    fn value_stack(&self) -> Vec<usize> {
        (0..self.get_value_stack_len()).filter_map(|i| self.get_value(i)).collect()
    }

    fn operands(&self) -> Vec<usize> {
        self.get_registers()
            .iter()
            .copied()
            .filter(|a| !matches!(self.get_raw_data(*a), Some(SimpleData::StackFrame(_))))
            .collect()
    }

    fn frames(&self) -> Vec<(usize, usize)> {
        let mut out = vec![];
        let mut depth = 0usize;
        for a in self.get_registers() {
            match self.get_raw_data(*a) {
                Some(SimpleData::StackFrame(f)) => out.push((f.return_addr(), depth)),
                _ => depth += 1,
            }
        }
        out
    }

    fn symbol_name(&self, sym: u64) -> Option<String> {
        self.get_symbols().get(&sym).cloned()
    }

    fn as_any_mut(&mut self) -> Option<&mut dyn std::any::Any> {
        Some(self)
    }

    fn working_copy(&mut self) -> Option<Result<Self, DataError>> {
        let last = self.get_data_len().saturating_sub(1);
        if let Err(e) = self.set_end_of_constant(last) {
            return Some(Err(e));
        }
        Some(self.clone_with_aux_without_data())
    }
}

impl HasHost for BasicW {
    fn host(&self) -> &Host {
        self.companion()
    }
    fn host_mut(&mut self) -> &mut Host {
        self.companion_mut()
    }
}

impl BasicDataCompanion<()> for Host {
    fn resolve(data: &mut BasicGarnishData<(), Self>, symbol: u64) -> Result<bool, DataError> {
        host_resolve(data, symbol)
    }
    fn apply(data: &mut BasicGarnishData<(), Self>, external_value: usize, input_addr: usize) -> Result<bool, DataError> {
        host_apply(data, external_value, input_addr)
    }
    fn defer_op(data: &mut BasicGarnishData<(), Self>, operation: Instruction, left: (GarnishDataType, usize), right: (GarnishDataType, usize)) -> Result<bool, DataError> {
        host_defer(data, operation, left, right)
    }
}

/// clone a Basic data object without cloning the host's log
fn light_clone(d: &BasicW) -> BasicW {
    // Clone is the only way to observe the private chains without disturbing the original.
    // The host is part of the object; its log can be long, so observers work on a copy whose
    // host is emptied right after the clone.
    let mut c = d.clone();
    *c.companion_mut() = Host::default();
    c
}

impl SimData for BasicW {
    const KIND: &'static str = "basic";
    const IS_BASIC: bool = true;

    fn create(host: Host, knobs: &Knobs) -> Result<Self, DataError> {
        BasicGarnishData::new_with_settings(
            knobs.instr.settings(),
            knobs.jump.settings(),
            knobs.symtab.settings(),
            knobs.exprsym.settings(),
            knobs.data.settings(),
            knobs.custom.settings(),
            host,
        )
    }

    fn value_stack(&self) -> Vec<usize> {
        let mut c = light_clone(self);
        let mut out = vec![];
        let mut guard = 0;
        while let Some(v) = c.pop_value_stack() {
            out.push(v);
            guard += 1;
            if guard > 100_000 {
                break;
            }
        }
        out.reverse();
        out
    }

    fn operands(&self) -> Vec<usize> {
        // get_register(i) walks the whole chain for every i; popping a copy is linear
        let n = self.get_register_len();
        if n <= 3 {
            return (0..n).filter_map(|i| self.get_register(i)).collect();
        }
        let mut c = light_clone(self);
        let mut out = Vec::with_capacity(n);
        while let Ok(Some(v)) = c.pop_register() {
            out.push(v);
            if out.len() > 1_000_000 {
                break;
            }
        }
        out.reverse();
        out
    }

    fn frames(&self) -> Vec<(usize, usize)> {
        let mut c = light_clone(self);
        let mut out = vec![];
        let mut guard = 0;
        loop {
            match c.pop_frame() {
                Ok(Some(ret)) => {
                    // pop_frame restores the operand chain saved at the call
                    out.push((ret, c.get_register_len()));
                }
                _ => break,
            }
            guard += 1;
            if guard > 100_000 {
                break;
            }
        }
        out.reverse();
        out
    }

    fn symbol_name(&self, sym: u64) -> Option<String> {
        self.get_symbol_string(sym).ok().flatten()
    }

    fn retain_and_optimize(&mut self) -> bool {
        self.retain_all_current_data();
        matches!(crate::world::guarded(|| self.optimize(&[])), Ok(Ok(_)))
    }

    fn retain_now(&mut self) {
        self.retain_all_current_data();
    }

    fn optimize_only(&mut self) -> bool {
        matches!(self.optimize(&[]), Ok(_))
    }

    fn as_any_mut(&mut self) -> Option<&mut dyn std::any::Any> {
        Some(self)
    }

    fn allocated_sizes(&self) -> Option<[usize; 6]> {
        Some([
            self.allocated_instruction_size(),
            self.allocated_jump_table_size(),
            self.allocated_symbol_table_size(),
            self.allocated_expression_symbol_block_size(),
            self.allocated_data_size(),
            self.allocated_custom_data_size(),
        ])
    }

    fn check_basic_tables(&self, exprsyms: &std::collections::BTreeMap<u64, usize>, custom: usize) -> Option<(String, String)> {
        for (sym, v) in exprsyms {
            let got = self.get_symbol_expression(*sym).ok().flatten();
            if got != Some(*v) {
                return Some(("C15.table.expression-symbol".into(), format!("symbol {} reads {:?} expected {}", sym, got, v)));
            }
        }
        if self.custom_data_size() != custom {
            return Some(("C15.table.custom-len".into(), format!("store {} model {}", self.custom_data_size(), custom)));
        }
        for i in 0..custom {
            if self.get_from_custom_data_block(i) != Some(()) {
                return Some(("C15.table.custom".into(), format!("index {} unreadable", i)));
            }
        }
        if self.get_from_custom_data_block(custom).is_some() {
            return Some(("C15.table.custom-past-end".into(), format!("index {} exists", custom)));
        }
        None
    }
}
